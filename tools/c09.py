"""C09 — the built-in lexer tokenizes by longest match with documented precedence.
Tier A: pattern tables x inputs through the REAL Matcher vs the Coq lexer model (vm_compute), each
stream also judged against the statement with python re as oracle.
Tier B: grammars with `match` blocks through lalrpop: the emitted pattern table must be sorted by the
documented precedence (Coq `sorted_by_prec`), carry the implicit whitespace skip iff no skip rule
exists, and the real Matcher on the EMITTED strings must agree with the model on MY patterns."""
import os, re, time, hashlib, subprocess
import vlib, rx, lexcheck

PROP = "C09"


def gen_table(r, n=None, with_skip=True, allow_nullable=False):
    n = n or r.randint(1, 5)
    asts = []
    for i in range(n):
        a = rx.rand_regex(r, 2)
        if not allow_nullable and rx.nullable(a):
            a = ("cat", [("lit", r.choice("abxy")), a])
        asts.append((a, False))
    if with_skip and r.random() < 0.7:
        asts.insert(r.randint(0, len(asts)), (r.choice([rx.WS_AST, ("plus", ("lit", " ")), ("cat", [("lit", "#"), ("star", ("cls", [(97, 122)], False))])]), True))
    return asts


def gen_input(asts, r):
    parts = []
    for _ in range(r.randint(0, 6)):
        k = r.random()
        if k < 0.75:
            parts.append(rx.sample(r.choice(asts)[0], r))
        elif k < 0.9:
            parts.append(r.choice([" ", "\t", "\n", "  ", ""]))
        else:
            parts.append(r.choice(["?", "é", "~", "∀", "Z9"]))
    return "".join(parts)


# ---------------------------------------------------------------- tier C: lazy-DFA cache pressure

def pressure_case(r, k, nwords):
    """patterns whose DFA has ~2^k states and an input that visits most of them: the lazy DFA of the
    real matcher has to clear its cache many times.  -> (patterns, text, expected token stream)"""
    pats = [(r"[ab]+", False), (r"\s+", True), (r"[ab]*a[ab]{%d}c" % k, False), (r"[ab]*b[ab]{%d}d" % k, False), (r"[cd]", False)]
    words = []
    for _ in range(nwords):
        w = "".join(r.choice("ab") for _ in range(r.randint(1, 120)))
        z = r.random()
        w += "c" if z < 0.3 else ("d" if z < 0.6 else "")
        words.append(w)
    exp, pos = [], 0
    for w in words:
        body = w.rstrip("cd"); tail = w[len(body):]
        if tail == "c" and len(body) > k and body[-k - 1] == "a":
            exp.append(("t", pos, 2, pos + len(w)))
        elif tail == "d" and len(body) > k and body[-k - 1] == "b":
            exp.append(("t", pos, 3, pos + len(w)))
        else:
            exp.append(("t", pos, 0, pos + len(body)))
            if tail:
                exp.append(("t", pos + len(body), 4, pos + len(w)))
        pos += len(w) + 1
    exp.append(("end",))
    return pats, " ".join(words), exp


# ---------------------------------------------------------------- tier B: through lalrpop

def gen_match_grammar(r):
    """-> (grammar text, rungs description) ; every entry's regex starts with a family letter so that
    entries of one rung do not overlap (no ambiguity), entries of different rungs may"""
    fams = list("abcdefg")
    r.shuffle(fams)
    nr = r.randint(0, 3)
    entries = []       # dict(rung, kind lit|re, ast, name(term name in grammar), skip)
    used_names = set()
    catch = None
    skipfams = list("uvw")
    r.shuffle(skipfams)
    for ri in range(nr):
        k = r.randint(1, 3)
        fs = r.sample(fams, k)
        for f in fs:
            skip = r.random() < 0.15 and bool(skipfams)
            if skip:
                f = skipfams.pop()      # skip entries get a globally unique first letter
            kind = r.choice(["lit", "re", "re"])
            if kind == "lit":
                txt = f + "".join(r.choice("abc=+") for _ in range(r.randint(0, 2)))
                ast = ("lit", txt)
            else:
                ast = ("cat", [("lit", f), rx.rand_regex(r, 1)])
            key = rx.to_rust(ast) if kind == "re" else ast[1]
            if key in used_names:
                continue
            used_names.add(key)
            rename = None if skip else (r.choice([None, "N%d" % len(entries)]) )
            entries.append({"rung": ri, "kind": kind, "ast": ast, "skip": skip, "rename": rename})
        if catch is None and r.random() < 0.4:
            catch = ri
    if nr and catch is None and r.random() < 0.5:
        catch = nr - 1
    # literals/regexes that only appear in the grammar body (need `_` or no match block)
    extra = []
    if nr == 0 or catch is not None:
        for _ in range(r.randint(1, 3)):
            kind = r.choice(["lit", "re"])
            f = r.choice("hijk")
            ast = ("lit", f + r.choice(["", "x", "+"])) if kind == "lit" else ("cat", [("lit", f), ("plus", ("cls", [(48, 57)], False))])
            key = rx.to_rust(ast) if kind == "re" else ast[1]
            if key in used_names:
                continue
            used_names.add(key)
            extra.append({"rung": (catch if nr else 0), "kind": kind, "ast": ast, "skip": False, "rename": None, "extra": True})
    def lit_text(e):
        if e["kind"] == "lit":
            return '"%s"' % e["ast"][1].replace("\\", "\\\\").replace('"', '\\"')
        return 'r#"%s"#' % rx.to_rust(e["ast"])
    L = ["grammar;"]
    if nr:
        blocks = []
        for ri in range(nr):
            items = []
            for e in entries:
                if e["rung"] == ri:
                    if e["skip"]:
                        items.append("    %s => { }," % lit_text(e))
                    elif e["rename"]:
                        items.append("    %s => %s," % (lit_text(e), e["rename"]))
                    else:
                        items.append("    %s," % lit_text(e))
            if catch == ri:
                items.append("    _,")
            blocks.append("{\n" + "\n".join(items) + "\n}")
        L.append("match " + " else ".join(blocks))
    terms = []
    for e in entries + extra:
        if not e["skip"]:
            terms.append(e["rename"] if e["rename"] else lit_text(e))
            e["term"] = terms[-1]
    if not terms:
        return None
    L.append("pub S: () = { => (), S T => () };")
    L.append("T: () = {\n" + "\n".join("    %s => ()," % t for t in terms) + "\n};")
    return "\n".join(L) + "\n", entries + extra, nr


def read_strs(rs_text):
    rs_text = vlib.norm_prefix(rs_text)
    m = re.search(r"let __strs: &\[\(&str, bool\)\] = &\[(.*?)\n        \];", rs_text, re.S)
    out = []
    for mm in re.finditer(r'\((r?"(?:[^"\\]|\\.)*"), (true|false)\),', m.group(1)):
        lit = mm.group(1)
        if lit.startswith('r"'):
            s = lit[2:-1]
        else:
            s = bytes(lit[1:-1], "utf-8").decode("unicode_escape").encode("latin-1", "ignore").decode("utf-8", "ignore") if "\\u" not in lit else eval_rust_str(lit)
        out.append((s, mm.group(2) == "true"))
    return out


def eval_rust_str(lit):
    body = lit[1:-1]
    out, i = [], 0
    while i < len(body):
        c = body[i]
        if c == "\\":
            n = body[i + 1]
            if n == "u":
                j = body.index("}", i)
                out.append(chr(int(body[i + 3:j], 16))); i = j + 1; continue
            out.append({"n": "\n", "t": "\t", "r": "\r", "\\": "\\", '"': '"', "'": "'", "0": "\0"}[n]); i += 2; continue
        out.append(c); i += 1
    return "".join(out)


def read_token_map(rs_text):
    """lexer index -> terminal name (from __token_to_integer and __TERMINAL)"""
    rs_text = vlib.norm_prefix(rs_text)
    terms = re.findall(r'r###"(.*?)"###,\n', re.search(r"const __TERMINAL: &\[&str\] = &\[(.*?)\n    \];", rs_text, re.S).group(1) + "\n", re.S)
    mp = {}
    for mm in re.finditer(r"Token\((\d+), _\) if true => Some\((\d+)\),", rs_text):
        mp[int(mm.group(1))] = terms[int(mm.group(2))].replace("\\\\", "\\")
    return mp


def run(tier):
    t0 = time.time()
    rep = vlib.Reporter(PROP)
    nobl, ndis, names = vlib.proof_obligations(PROP, rep)
    r = vlib.rng(9)
    lexdrv = vlib.build_harness("lexdrv")
    lal = vlib.build_lalrpop()
    # ---------------- tier A
    tables, asts_by, cases = {}, {}, []
    ntab = 40 if tier == "quick" else 300
    for i in range(ntab):
        asts = gen_table(r, allow_nullable=(i % 8 == 7))
        tid = "a%d" % i
        tables[tid] = [(rx.to_rust(a), sk) for a, sk in asts]
        asts_by[tid] = asts
        for _ in range(8 if tier == "quick" else 20):
            cases.append((tid, gen_input(asts, r)))
    # ---------------- tier B
    nb = 25 if tier == "quick" else 250
    order_checks, order_meta = [], []
    gdir = os.path.join(vlib.CACHE, "c09g")
    os.makedirs(gdir, exist_ok=True)
    accepted = rejected = 0
    for i in range(nb):
        gg = gen_match_grammar(r)
        if gg is None:
            continue
        text, ents, nr = gg
        d = os.path.join(gdir, hashlib.sha1((lrfile_hash(lal) + text).encode()).hexdigest()[:14])
        os.makedirs(d, exist_ok=True)
        rs = os.path.join(d, "g.rs")
        if not os.path.exists(os.path.join(d, "done")):
            open(os.path.join(d, "g.lalrpop"), "w").write(text)
            p = subprocess.run([lal, "-f", "g.lalrpop"], cwd=d, stdout=subprocess.PIPE, stderr=subprocess.STDOUT, text=True, timeout=1200)
            open(os.path.join(d, "done"), "w").write(p.stdout[-3000:])
        if not os.path.exists(rs):
            rejected += 1
            continue
        accepted += 1
        src = open(rs).read()
        strs = read_strs(src)
        tmap = read_token_map(src)
        by_term = {e["term"]: e for e in ents if not e["skip"]}
        skips = [e for e in ents if e["skip"]]
        # map emitted entries to my entries
        emitted, okmap = [], True
        user_skip_seen = 0
        for k, (s, sk) in enumerate(strs):
            if sk:
                first = s[3:4] if s.startswith("(?:") else s[:1]
                e = next((e for e in skips if (e["ast"][1][0] if e["kind"] == "lit" else e["ast"][1][0][1]) == first), None)
                if e is not None:
                    emitted.append(e)
                else:
                    emitted.append({"implicit_ws": True, "ast": rx.WS_AST, "skip": True})
            else:
                t = tmap.get(k)
                if t not in by_term:
                    okmap = False
                    break
                emitted.append(by_term[t])
        tid = "b%d" % i
        if not okmap or len(emitted) != len(strs):
            rep.violation("emitted-table-unreadable", {"what": "cannot relate the emitted __strs table to the grammar's terminals", "grammar_text": text,
                          "strs": strs, "broken": "tie generated __intern_token <-> tools/c09.py"}, nofail=True)
            continue
        has_user_skip = bool(skips)
        implicit = [e for e in emitted if e.get("implicit_ws")]
        if has_user_skip and implicit:
            rep.violation("implicit-skip-although-skip-rule", {"what": "the grammar declares a skip rule but the generated lexer also contains the implicit whitespace skip",
                          "grammar_text": text, "strs": strs})
        if not has_user_skip and (len(implicit) != 1 or not emitted[-1].get("implicit_ws") or strs[-1][0] != r"\s+"):
            rep.violation("implicit-skip-missing", {"what": "no skip rule is declared but the implicit `\\s+` skip is not the last (highest) entry of the generated lexer table",
                          "grammar_text": text, "strs": strs})
        real = [e for e in emitted if not e.get("implicit_ws")]
        order_checks.append("sorted_by_prec %d [%s]" % (nr, "; ".join("{| e_rung := %d; e_lit := %s |}" % (e["rung"], "true" if e["kind"] == "lit" else "false") for e in real)))
        order_meta.append((text, strs))
        tables[tid] = strs
        asts_by[tid] = [(e["ast"], e["skip"]) for e in emitted]
        for _ in range(8 if tier == "quick" else 20):
            cases.append((tid, gen_input(asts_by[tid], r)))
    # ---------------- run the real matcher, judge, compare with the model
    streams = lexcheck.run_lexdrv(lexdrv, tables, cases)
    nj = 0
    for (tid, inp), toks in zip(cases, streams):
        why = lexcheck.judge(asts_by[tid], inp, toks)
        if why:
            nj += 1
            if nj <= 3:
                rep.violation(why[0], {"what": why[1], "patterns": [list(x) for x in tables[tid]], "input": inp, "tokens": toks,
                                       "from": "lalrpop-generated table" if tid[0] == "b" else "pattern table"})
    # ---------------- tier C: cache pressure (too large for evaluation inside Coq: judged against the
    # token stream that the statement prescribes, known by construction)
    npress = 0
    for k, nw in ([(12, 6000), (16, 6000)] if tier == "quick" else [(10, 20000), (12, 20000), (14, 20000), (16, 20000), (18, 20000), (20, 20000)]):
        pats, text, exp = pressure_case(r, k, nw)
        got = lexcheck.run_lexdrv(lexdrv, {"p": pats}, [("p", text)])[0]
        npress += 1
        if got != exp:
            nj += 1
            i = next((j for j, (a, b_) in enumerate(zip(got, exp)) if a != b_), min(len(got), len(exp)))
            # cut the input down to the shortest prefix (whole words) that still fails
            rep.violation("wrong-tokens-under-cache-pressure", {
                "what": "on a long input over patterns with a large DFA the real Matcher returns %r as item %d of the token stream, the longest-match rule prescribes %r "
                        "(the lazy DFA cleared its cache and previously obtained state ids were used again)" % (got[i] if i < len(got) else None, i, exp[i] if i < len(exp) else None),
                "patterns": [list(x) for x in pats], "input_bytes": len(text), "input_sha1": hashlib.sha1(text.encode()).hexdigest(), "generator": "tools/c09.py pressure_case(rng(9) stream, k=%d, words=%d)" % (k, nw),
                "input_prefix_until_failure": text[: (exp[i][1] + 200) if i < len(exp) and len(exp[i]) > 1 else 2000][-4000:]})
    hdr = lexcheck.COQ_HEADER + "From LV Require Import Lex.TokenOrder.\n"
    for tid, asts in asts_by.items():
        hdr += "Definition P_%s : list (re * bool) := %s.\n" % (tid, lexcheck.coq_pats(asts))
    checks = ["chk P_%s %s %s" % (tid, lexcheck.coq_bytes(inp), lexcheck.coq_stream(toks)) for (tid, inp), toks in zip(cases, streams)]
    bad = vlib.coq_eval_cases("c09", hdr, checks, shard_size=120)
    if bad and nj == 0:
        for i in bad[:2]:
            rep.violation("model-vs-impl", {"what": "the real Matcher and the Coq model Lex/LexModel.v disagree on this case; the statement itself was not contradicted",
                          "patterns": [list(x) for x in tables[cases[i][0]]], "input": cases[i][1], "tokens": streams[i], "coq_check": checks[i],
                          "broken": "correspondence Lex/LexModel.v <-> lalrpop-util/src/lexer.rs (and regex re-rendering for tier B)"}, nofail=True)
    obad = vlib.coq_eval_cases("c09o", hdr, order_checks, shard_size=200) if order_checks else []
    for i in obad[:2]:
        rep.violation("table-not-sorted-by-precedence", {"what": "the generated lexer table is not ordered by the documented precedence (earlier rung > later rung; literal > regex in a rung; `_` literals in the rung of `_`)",
                      "grammar_text": order_meta[i][0], "strs": order_meta[i][1], "coq_check": order_checks[i]})
    kinds = {"tok": 0, "inv": 0, "end": 0, "loop": 0}
    for s in streams:
        for t in s:
            kinds["tok" if t[0] == "t" else t[0]] = kinds.get("tok" if t[0] == "t" else t[0], 0) + 1
    distinct = len({(tid, inp) for (tid, inp), s in zip(cases, streams) if sum(1 for t in s if t[0] == "t") >= 2})
    cov = {"obligations": nobl + len(checks) + len(order_checks), "discharged": ndis + len(checks) - len(bad) + len(order_checks) - len(obad),
           "checker_cmd": "make -C coq; coqc Props/C09.v; coqc .cache/cases/c09/*.v .cache/cases/c09o/*.v (vm_compute)",
           "trusted_base": vlib.TRUSTED_COMMON + ["harness/src/bin/lexdrv.rs (real MatcherBuilder/Matcher)", "tools/rx.py (regex AST -> Rust syntax / Coq re over UTF-8 bytes)", "python re (judge only)"],
           "theorems": names, "evaluations": len(cases), "distinct_nontrivial": distinct,
           "rule": "A: random pattern tables (literals, classes incl. non-ASCII, repetitions, alternations, skip patterns, some nullable) x inputs assembled from pattern samples, whitespace and junk; "
                   "C: patterns with 2^10..2^20-state DFAs x inputs of ~1 MB visiting most states (lazy-DFA cache clears), judged by construction; B: random grammars with 0-3 `match` rungs, renamings, skip rules, `_`, grammar-only literals through lalrpop, emitted table order + real matcher on the emitted strings; "
                   "non-trivial = stream with at least two tokens",
           "distribution": {"cache_pressure_streams_C": npress, "tables_A": ntab, "grammars_B_accepted": accepted, "grammars_B_rejected": rejected, "stream_items": kinds, "order_checks": len(order_checks)},
           "samples": [{"patterns": [list(x) for x in tables[cases[0][0]]], "input": cases[0][1], "tokens": streams[0]}]}
    vlib.write_evidence(PROP, tier, "proof", cov, time.time() - t0, violations=len(rep.viol),
                        assumptions=["regex semantics of the generated fragment: regex-automata is exercised, not verified; Unicode classes other than the whitespace class are not generated"])
    return rep.finish()


def lrfile_hash(path):
    h = hashlib.sha1(); h.update(open(path, "rb").read()); return h.hexdigest()[:12]


def replay(path):
    import json
    print(json.dumps(json.load(open(path)), indent=1)[:3000]); return run("quick")
