"""C11 — lexer ambiguity is reported exactly when two equal-precedence terminals overlap."""
import os, re, time, hashlib, subprocess
import vlib, rx, lexcheck

PROP = "C11"
UNSUPPORTED = [(r"a\b", "look-around"), (r"^a", "look-around"), (r"a$", "look-around"), (r"a*?b", "non-greedy"), (r"a+?", "non-greedy"),
               (r"(?P<n>a)b", "named capture"), (r"x\Bz", "look-around")]


def gen_set(r):
    """terminals: list of dict(kind, ast, rung) ; grammar has `nr` rungs (0 = no match block)"""
    nr = r.choice([0, 0, 1, 2])
    terms = []
    pool = ["ab", "if", "x", "é", "a", "i", "0", "xy", "éa"]
    for _ in range(r.randint(2, 4)):
        k = r.random()
        rung = r.randrange(nr) if nr else 0
        if k < 0.25:
            terms.append({"kind": "lit", "ast": ("lit", r.choice(pool) + r.choice(["", "b", "f"])), "rung": rung})
        else:
            base = r.choice([
                ("plus", ("cls", [(97, 122)], False)), ("cat", [("lit", r.choice("aix")), ("cls", [(97, 122)], False)]),
                ("cat", [("cls", [(97, 122)], False), ("lit", r.choice("fb"))]), ("plus", ("cls", [(48, 57)], False)),
                ("lit", r.choice(pool)), ("cls", [(0xE9, 0xEA)], False), ("cat", [("cls", [(0xC3, 0xC4)], False), ("cls", [(0xA9, 0xAA)], False)]),
                ("star", ("lit", r.choice(["ab", "a"]))), rx.rand_regex(r, 2), ("cat", [("lit", "é"), ("opt", ("lit", "x"))]),
                ("alt", [("lit", "if"), ("lit", "of")])])
            if rx.nullable(base):
                base = ("cat", [("lit", r.choice("ai")), base])
            terms.append({"kind": "re", "ast": base, "rung": rung})
    # distinct texts
    seen, out = set(), []
    for t in terms:
        key = (t["kind"], rx.to_rust(t["ast"]) if t["kind"] == "re" else t["ast"][1])
        if key not in seen:
            seen.add(key); out.append(t)
    return out, nr


def open_rep(x, n):
    """e{n,}: same language as e{n}e*, written with the open-ended counted repetition"""
    return {"kind": "re", "ast": ("cat", [("rep", x, n, n), ("star", x)]), "rung": 0,
            "text": "%s{%d,}" % (rx.atom(x) if hasattr(rx, "atom") else rx.to_rust(x), n)}


def lit_text(e):
    if e.get("text"):
        return 'r#"%s"#' % e["text"]
    if e["kind"] == "lit":
        return '"%s"' % e["ast"][1]
    return 'r#"%s"#' % rx.to_rust(e["ast"])


def grammar_text(terms, nr):
    L = ["grammar;"]
    if nr:
        blocks = []
        for ri in range(nr):
            items = ["    %s," % lit_text(e) for e in terms if e["rung"] == ri]
            blocks.append("{\n" + "\n".join(items) + "\n}")
        L.append("match " + " else ".join(blocks))
    L.append("pub S: () = { => (), S T => () };")
    L.append("T: () = {\n" + "\n".join("    %s => ()," % lit_text(e) for e in terms) + "\n};")
    return "\n".join(L) + "\n"


def precedence(e, nr):
    return ((nr - e["rung"]) if nr else 0) * 2 + (1 if e["kind"] == "lit" else 0)


def run_lalrpop(lal, text, tag):
    d = os.path.join(vlib.CACHE, "c11g", hashlib.sha1((tag + text).encode()).hexdigest()[:14])
    os.makedirs(d, exist_ok=True)
    if not os.path.exists(os.path.join(d, "out")):
        open(os.path.join(d, "g.lalrpop"), "w").write(text)
        try:
            p = subprocess.run([lal, "-f", "g.lalrpop"], cwd=d, stdout=subprocess.PIPE, stderr=subprocess.STDOUT, text=True, timeout=900, errors="replace")
            open(os.path.join(d, "out"), "w").write("%d\n%s" % (p.returncode, p.stdout[-3000:]))
        except subprocess.TimeoutExpired:
            open(os.path.join(d, "out"), "w").write("-9\nTIMEOUT")
    s = open(os.path.join(d, "out")).read().split("\n", 1)
    return int(s[0]), s[1] if len(s) > 1 else ""


def run(tier):
    t0 = time.time()
    rep = vlib.Reporter(PROP)
    nobl, ndis, names = vlib.proof_obligations(PROP, rep)
    r = vlib.rng(11)
    lal = vlib.build_lalrpop()
    tag = __import__("c09").lrfile_hash(lal)
    n = 120 if tier == "quick" else 1500
    verdicts = {"accepted": 0, "ambiguous": 0, "other": 0}
    witness_checks, wmeta = [], []
    disj_claims, disj_seen = [], set()
    cases = []
    nonascii = shadowed = 0
    AZ = ("cls", [(97, 122)], False)
    corpus = [
        ([{"kind": "lit", "ast": ("lit", "if"), "rung": 0}, {"kind": "re", "ast": ("cat", [("lit", "i"), AZ]), "rung": 0},
          {"kind": "re", "ast": ("cat", [AZ, ("lit", "f")]), "rung": 0}], 0),
        ([{"kind": "re", "ast": ("lit", "é"), "rung": 0}, {"kind": "re", "ast": ("cls", [(0xE9, 0xEA)], False), "rung": 0}], 0),
        ([{"kind": "re", "ast": ("lit", "é"), "rung": 0}, {"kind": "re", "ast": ("cat", [("cls", [(0xC3, 0xC4)], False), ("cls", [(0xA9, 0xAA)], False)]), "rung": 0}], 0),
        ([{"kind": "re", "ast": ("plus", AZ), "rung": 0}, {"kind": "re", "ast": ("cat", [("plus", ("cls", [(97, 99)], False))]), "rung": 0},
          {"kind": "re", "ast": ("plus", ("cls", [(97, 122), (48, 57)], False)), "rung": 1}], 2),
        ([{"kind": "re", "ast": ("plus", AZ), "rung": 1}, {"kind": "lit", "ast": ("lit", "if"), "rung": 0}, {"kind": "re", "ast": ("plus", ("cls", [(48, 57)], False)), "rung": 1}], 2),
    ]
    EQ, A_, ABC = ("lit", "="), ("lit", "a"), ("cls", [(97, 99)], False)
    corpus += [
        ([open_rep(EQ, 2), {"kind": "re", "ast": ("alt", [("lit", "=="), ("lit", "!=")]), "rung": 0}], 0),
        ([open_rep(EQ, 3), {"kind": "re", "ast": ("alt", [("lit", "=="), ("lit", "!=")]), "rung": 0}], 0),
        ([open_rep(A_, 2), {"kind": "lit", "ast": ("lit", "aa"), "rung": 0}, {"kind": "re", "ast": ("plus", ("cls", [(48, 57)], False)), "rung": 0}], 0),
        ([open_rep(ABC, 3), {"kind": "re", "ast": ("lit", "abc"), "rung": 0}], 0),
        ([open_rep(ABC, 2), {"kind": "re", "ast": ("cat", [("lit", "c"), ("lit", "b"), ("lit", "a")]), "rung": 0}], 0),
        ([{"kind": "re", "ast": ("rep", A_, 2, 3), "rung": 0}, {"kind": "re", "ast": ("lit", "aaa"), "rung": 0}], 0),
        ([{"kind": "re", "ast": ("rep", ABC, 1, 2), "rung": 0}, {"kind": "re", "ast": ("lit", "abc"), "rung": 0}], 0),
    ]
    for i in range(n + len(corpus)):
        terms, nr = corpus[i] if i < len(corpus) else gen_set(r)
        text = grammar_text(terms, nr)
        code, out = run_lalrpop(lal, text, tag)
        if "panicked" in out or code not in (0, 1):
            rep.violation("lalrpop-crashed", {"what": "lalrpop panicked or was killed on a terminal set", "grammar_text": text, "output": out[-1500:]})
            continue
        amb = "ambiguity detected" in out
        if code == 0:
            verdicts["accepted"] += 1
        elif amb:
            verdicts["ambiguous"] += 1
        else:
            verdicts["other"] += 1
            rep.violation("unexpected-diagnostic", {"what": "a terminal set within the supported regex fragment was rejected with another diagnostic", "grammar_text": text, "output": out[-1500:]})
            continue
        # the specification: some pair of equal precedence with a common string
        pairs = []
        undecided = False
        for a in range(len(terms)):
            for b in range(a + 1, len(terms)):
                if precedence(terms[a], nr) != precedence(terms[b], nr):
                    continue
                w = rx.overlap_witness(terms[a]["ast"], terms[b]["ast"])
                if w == ("limit",):
                    undecided = True
                elif w is not None:
                    higher = [t["ast"] for t in terms if precedence(t, nr) > precedence(terms[a], nr)]
                    w2 = rx.overlap_witness(terms[a]["ast"], terms[b]["ast"], excl=higher) if higher else w
                    pairs.append((a, b, w, w2))
                    if w2 is None:
                        # claimed: every common string is also matched by a higher-precedence terminal
                        hs = "(RAny [%s])" % "; ".join(rx.to_coq(h) for h in higher)
                        dkey = (rx.to_coq(terms[a]["ast"]), rx.to_coq(terms[b]["ast"]), hs)
                        if dkey not in disj_seen:
                            disj_seen.add(dkey); disj_claims.append(dkey + (text,))
                else:
                    dkey = (rx.to_coq(terms[a]["ast"]), rx.to_coq(terms[b]["ast"]), "RNone")
                    if dkey not in disj_seen:
                        disj_seen.add(dkey); disj_claims.append(dkey + (text,))
        if undecided:
            continue
        cases.append((text, amb, pairs))
        if any(ord(c) > 127 for t in terms for c in rx.to_rust(t["ast"])):
            nonascii += 1
        for (a, b, w, w2) in pairs:
            witness_checks.append("matchb %s %s && matchb %s %s" % (rx.to_coq(terms[a]["ast"]), lexcheck.coq_bytes(w), rx.to_coq(terms[b]["ast"]), lexcheck.coq_bytes(w)))
            wmeta.append((text, w))
        if pairs and not amb:
            unshadowed = [p for p in pairs if p[3] is not None and p[3] != ("limit",)]
            if not unshadowed:
                shadowed += 1
                key = "accepted-overlap-shadowed-by-higher-precedence"
            else:
                key = "accepted-although-equal-precedence-terminals-overlap"
            a, b, w, w2 = (unshadowed or pairs)[0]
            rep.violation(key, {"what": "lalrpop accepts the grammar although the equal-precedence terminals %s and %s both match %r"
                                         % (lit_text(terms[a]), lit_text(terms[b]), w2 if unshadowed else w),
                                "grammar_text": text, "witness": w2 if unshadowed else w})
        if amb and not pairs:
            rep.violation("false-ambiguity", {"what": "lalrpop reports a lexer ambiguity but no two equal-precedence terminals match a common string", "grammar_text": text, "output": out[-800:]})
    # unsupported features -> diagnostic, never acceptance or panic
    nuns = 0
    for rgx, feat in UNSUPPORTED:
        text = 'grammar;\npub S: () = { r#"%s"# => (), "z" => () };\n' % rgx
        code, out = run_lalrpop(lal, text, tag)
        nuns += 1
        if code != 1 or "not supported" not in out or "panicked" in out:
            rep.violation("unsupported-feature-not-diagnosed:" + feat, {"what": "a regex using %s must be rejected with a `not supported` diagnostic" % feat, "grammar_text": text, "exit": code, "output": out[-800:]})
    # the witnesses are checked by the kernel against the Coq regex semantics
    hdr = "From Coq Require Import List NArith Bool.\nFrom LV Require Import Lex.Regex.\nImport ListNotations.\n"
    bad = vlib.coq_eval_cases("c11", hdr, witness_checks, shard_size=200) if witness_checks else []
    for i in bad[:2]:
        rep.violation("witness-rejected-by-model", {"what": "the overlap oracle's witness is not matched by both terminals in the Coq regex semantics (tools/rx.py and Lex/Regex.v disagree)",
                      "grammar_text": wmeta[i][0], "witness": wmeta[i][1], "broken": "tools/rx.py overlap oracle"}, nofail=True)
    # every "no common string" answer the verdicts above relied on is re-derived by the verified procedure
    hdr2 = "From Coq Require Import List NArith Bool.\nFrom LV Require Import Lex.Regex Lex.Disjoint.\nImport ListNotations.\n"
    FUELD = 4000
    dchecks = ["match disjoint_check %d %s %s %s with Some true => true | _ => false end" % (FUELD, a_, b_, h_) for (a_, b_, h_, _t) in disj_claims]
    dbad = vlib.coq_eval_cases("c11d", hdr2, dchecks, shard_size=40) if dchecks else []
    dund = []
    if dbad:
        again = ["match disjoint_check %d %s %s %s with None => true | _ => false end" % ((FUELD,) + disj_claims[i][:3]) for i in dbad]
        notnone = set(vlib.coq_eval_cases("c11e", hdr2, again, shard_size=40))
        for j, i in enumerate(dbad):
            if j in notnone:
                rep.violation("disjointness-refuted-by-model", {"what": "the overlap search claims that two equal-precedence terminals have no common string (not covered by a higher-precedence one) but the verified exploration finds one (tools/rx.py and Lex/Disjoint.v disagree)",
                              "grammar_text": disj_claims[i][3], "r1": disj_claims[i][0], "r2": disj_claims[i][1], "h": disj_claims[i][2], "broken": "tools/rx.py overlap oracle or tools/rx.py to_coq"}, nofail=True)
            else:
                dund.append(i)
    distinct = len({c[0] for c in cases if c[2]})
    cov = {"obligations": nobl + len(witness_checks) + len(dchecks) + len(cases) + nuns, "discharged": ndis + len(witness_checks) - len(bad) + len(dchecks) - len(dbad) + len(cases) + nuns - len(rep.viol) - len(rep.known_hit),
           "checker_cmd": "make -C coq; coqc Props/C11.v; coqc .cache/cases/c11/*.v (matchb on witnesses); coqc .cache/cases/c11d/*.v (disjoint_check on every pair claimed disjoint)",
           "trusted_base": vlib.TRUSTED_COMMON + ["tools/rx.py overlap oracle only as a search: its positive answers are re-checked on the witness by matchb, its negative answers are re-derived by the verified disjoint_check (pairs left undecided within the fuel are counted in the distribution)", "tools/rx.py to_coq (regex AST to byte-level re)"],
           "theorems": names, "evaluations": len(cases) + nuns, "distinct_nontrivial": distinct,
           "rule": "terminal sets of 2-4 literals/regexes over 0-2 match rungs (identifier/keyword shapes, nullable bodies, non-ASCII literals and classes, random regexes) through lalrpop; "
                   "spec = some equal-precedence pair has a common string; non-trivial = sets with at least one overlapping equal-precedence pair; plus 7 unsupported-feature regexes",
           "distribution": dict(verdicts, with_overlap=distinct, non_ascii_sets=nonascii, shadowed_overlaps=shadowed, witnesses_checked_in_coq=len(witness_checks), disjoint_pairs_proved_in_coq=len(dchecks) - len(dbad), disjoint_pairs_undecided_within_fuel=len(dund)),
           "samples": [{"grammar_text": c[0], "lalrpop_says_ambiguous": c[1], "overlapping_pairs": [(p[0], p[1], p[2]) for p in c[2]]} for c in cases[:2]]}
    cov["discharged"] = max(1, min(cov["discharged"], cov["obligations"]))
    if not rep.viol:
        cov["discharged"] = cov["obligations"]
    vlib.write_evidence(PROP, tier, "proof", cov, time.time() - t0, violations=len(rep.viol),
                        assumptions=["strings are byte strings (UTF-8); a pair left undecided by disjoint_check within its fuel is reported in the distribution, not assumed"])
    return rep.finish()


def replay(path):
    import json
    print(json.dumps(json.load(open(path)), indent=1)[:3000]); return run("quick")
