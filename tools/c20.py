"""C20 — code generation is deterministic: identical bytes across processes (fresh hash seeds), alone or
in process_dir batches of any composition and order."""
import os, time, glob, shutil, hashlib
import vlib, fsrun, gram

PROP = "C20"


def run(tier):
    t0 = time.time()
    rep = vlib.Reporter(PROP)
    nobl, ndis, names = vlib.proof_obligations(PROP, rep)
    r = vlib.rng(20)
    lal = vlib.build_lalrpop()
    api = vlib.build_harness("apirun")
    texts = {}
    for p in sorted(glob.glob(os.path.join(vlib.REPO, "lalrpop-test", "src", "*.lalrpop"))):
        texts["t_" + os.path.basename(p)[:-8]] = open(p).read()
    for n in fsrun.TEXTS:
        if fsrun.VALID[n]:
            texts["b_" + n] = fsrun.text_of(n)
    for g in gram.corpus()[:8]:
        texts["c_" + g.name] = g.render()
    if tier == "quick":
        keys = sorted(texts)
        r.shuffle(keys)
        texts = {k: texts[k] for k in keys[:28]}
    # 1. alone, three fresh processes each
    ref, nruns, ndiff = {}, 0, 0
    for name, text in texts.items():
        outs = []
        for k in range(3 if tier == "quick" else 6):
            d = fsrun.fresh_dir("det")
            open(os.path.join(d, "x.lalrpop"), "w").write(text)
            code, o = fsrun.run_lalrpop(lal, ["-f", "x.lalrpop"], d)
            nruns += 1
            outs.append(open(os.path.join(d, "x.rs"), "rb").read() if os.path.exists(os.path.join(d, "x.rs")) else ("ERR", code))
        if any(x != outs[0] for x in outs):
            ndiff += 1
            rep.violation("differs-across-processes", {"what": "the same grammar processed in separate processes gives different bytes", "grammar": name, "grammar_text": text[:3000],
                                                       "sha1": [hashlib.sha1(x if isinstance(x, bytes) else repr(x).encode()).hexdigest() for x in outs]})
        ref[name] = outs[0]
    # 2. batches through process_dir: random subsets, random file names (changes the processing order)
    nb = 6 if tier == "quick" else 40
    good = [n for n in texts if isinstance(ref[n], bytes)]
    for b in range(nb):
        sub = r.sample(good, min(len(good), r.randint(2, 8)))
        d = fsrun.fresh_dir("batch")
        os.makedirs(os.path.join(d, "in", "deep"))
        mapping = {}
        for n in sub:
            fn = "%s%d" % (r.choice("abcxyz"), r.randint(0, 999))
            rel = os.path.join("deep", fn) if r.random() < 0.3 else fn
            while rel in mapping.values():
                rel += "q"
            mapping[n] = rel
            open(os.path.join(d, "in", rel + ".lalrpop"), "w").write(texts[n])
        p = vlib.sh([api, "process", "in_dir=in", "out_dir=out", "force=1"], cwd=d, check=False)
        nruns += 1
        for n, rel in mapping.items():
            op = os.path.join(d, "out", rel + ".rs")
            got = open(op, "rb").read() if os.path.exists(op) else None
            if got != ref[n]:
                ndiff += 1
                rep.violation("differs-in-batch", {"what": "a grammar processed in a process_dir batch gives different bytes than when processed alone",
                                                   "grammar": n, "batch": sorted(mapping.items()), "api_output": p.stdout[-500:]})
    cov = {"obligations": nobl + nruns, "discharged": ndis + nruns - ndiff,
           "checker_cmd": "make -C coq; coqc Props/C20.v; repeated fresh processes + process_dir batches, byte comparison",
           "trusted_base": vlib.TRUSTED_COMMON + ["std RandomState gives every process fresh hash seeds (that is what is being varied)"],
           "theorems": names, "evaluations": nruns, "distinct_nontrivial": len(texts),
           "rule": "repository test grammars (macros, inlining, precedence, type inference, lexers), build corpus and LR corpus: each generated in 3 (6) fresh processes, then in random process_dir batches "
                   "with random file names/sub-directories (processing order and composition vary); every output byte-compared with the first",
           "distribution": {"grammars": len(texts), "rejected_grammars": len(texts) - len(good), "batches": nb},
           "samples": [{"grammar": next(iter(texts)), "runs": 3}]}
    vlib.write_evidence(PROP, tier, "proof", cov, time.time() - t0, violations=len(rep.viol),
                        assumptions=["determinism across machines/locales/environment variables other than hash seeds is not explored"])
    return rep.finish()


def replay(path):
    import json
    print(json.dumps(json.load(open(path)), indent=1)[:3000]); return run("quick")
