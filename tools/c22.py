"""C22 — a crash during generation never leaves output that a later build accepts.
Crash points: RLIMIT_FSIZE = n for many byte offsets n of the output write (the process is killed by
SIGXFSZ leaving exactly n bytes), for the .rs file and with --report also for the report; then a
normal non-forced build must produce the complete, correct output."""
import os, time, signal
import vlib, fsrun

PROP = "C22"


def run(tier):
    t0 = time.time()
    rep = vlib.Reporter(PROP)
    nobl, ndis, names = vlib.proof_obligations(PROP, rep)
    r = vlib.rng(22)
    lal = vlib.build_lalrpop()
    ref = fsrun.reference_outputs(lal)
    cases, nviol, killed = [], 0, 0
    samples = []
    for name in ["g0", "g2"]:
        full = ref[name]
        hdr_len = len(b"\n".join(full.split(b"\n", 2)[:2])) + 1
        offsets = set([0, 1, hdr_len - 2, hdr_len - 1, hdr_len, hdr_len + 1, len(full) - 1, len(full) // 2])
        first_nl = full.index(b"\n")
        offsets |= {first_nl, first_nl + 1, first_nl + 2}
        step = 1 if tier == "thorough" else max(1, len(full) // 40)
        offsets |= set(range(0, len(full), step))
        for report in (False, True):
            for n in sorted(offsets):
                if report and n % (4 if tier == "thorough" else 7):
                    continue
                d = fsrun.fresh_dir("crash")
                open(os.path.join(d, "a.lalrpop"), "w").write(fsrun.text_of(name))
                args = ["-f"] + (["--report"] if report else []) + ["a.lalrpop"]
                code, out = fsrun.run_lalrpop(lal, args, d, fsize=n)
                was_killed = code in (-signal.SIGXFSZ, 128 + signal.SIGXFSZ) or code < 0
                killed += 1 if was_killed else 0
                left = open(os.path.join(d, "a.rs"), "rb").read() if os.path.exists(os.path.join(d, "a.rs")) else None
                code2, out2 = fsrun.run_lalrpop(lal, (["--report"] if report else []) + ["a.lalrpop"], d)
                final = open(os.path.join(d, "a.rs"), "rb").read() if os.path.exists(os.path.join(d, "a.rs")) else None
                cases.append((name, report, n))
                if len(samples) < 2 and was_killed:
                    samples.append({"grammar": name, "report": report, "fsize_limit": n, "left_after_crash": None if left is None else len(left), "final_ok": final == full})
                if final != full:
                    nviol += 1
                    key = "truncated-output-kept" if (final is not None and full.startswith(final)) else "wrong-output-after-crash"
                    if nviol <= 3:
                        rep.violation(key, {"what": "a forced build was killed while writing (file size limit %d bytes); the following normal build %s" %
                                                    (n, "kept the truncated %d-byte file although the complete output has %d bytes" % (len(final), len(full)) if final is not None else "left no output"),
                                            "grammar": name, "report": report, "crash_offset": n, "header_bytes": hdr_len,
                                            "replay": "cd <dir with a.lalrpop>; (ulimit -f is in 512-byte blocks: use python resource.setrlimit(RLIMIT_FSIZE, %d)); lalrpop -f a.lalrpop; lalrpop a.lalrpop" % n})
    cov = {"obligations": nobl + len(cases), "discharged": ndis + len(cases) - nviol,
           "checker_cmd": "make -C coq; coqc Props/C22.v; python crash enumeration with RLIMIT_FSIZE on the real binary",
           "trusted_base": vlib.TRUSTED_COMMON + ["OS semantics of RLIMIT_FSIZE/SIGXFSZ: the file holds exactly the bytes written before the limit", "rename(2) atomicity within a directory"],
           "theorems": names, "evaluations": len(cases), "distinct_nontrivial": len(set(cases)),
           "rule": "forced build killed by SIGXFSZ at byte offset n of the output (every n in thorough; ~45 offsets incl. both header line boundaries in quick; with and without --report), "
                   "followed by a normal build; non-trivial = distinct (grammar, report, offset)",
           "distribution": {"crash_points": len(cases), "process_killed": killed, "violations": nviol},
           "samples": samples or [{"note": "no crash point killed the process"}]}
    vlib.write_evidence(PROP, tier, "proof", cov, time.time() - t0, violations=len(rep.viol),
                        assumptions=["crashes between system calls other than during writes (e.g. between remove and create) are covered by the model only"])
    return rep.finish()


def replay(path):
    import json
    print(json.dumps(json.load(open(path)), indent=1)[:3000]); return run("quick")
