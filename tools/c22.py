"""C22 — a crash during generation never leaves output that a later build accepts.
Crash points: RLIMIT_FSIZE = n for many byte offsets n of the output write (the process is killed by
SIGXFSZ leaving exactly n bytes), for the .rs file and with --report also for the report; then a
normal non-forced build must produce the complete, correct output."""
import os, time, signal
import vlib, fsrun

PROP = "C22"


def _wdir():
    import multiprocessing
    if multiprocessing.current_process().name == "MainProcess":
        return fsrun.fresh_dir("crash-%d-main" % os.getpid())
    return fsrun.fresh_dir("crash-%d-%d" % (os.getppid(), os.getpid()))


def _fsize_case(t):
    lal, name, report, n, full, hdr_len = t
    d = _wdir()
    open(os.path.join(d, "a.lalrpop"), "w").write(fsrun.text_of(name))
    args = ["-f"] + (["--report"] if report else []) + ["a.lalrpop"]
    code, out = fsrun.run_lalrpop(lal, args, d, fsize=n)
    was_killed = code in (-signal.SIGXFSZ, 128 + signal.SIGXFSZ) or code < 0
    left = os.path.getsize(os.path.join(d, "a.rs")) if os.path.exists(os.path.join(d, "a.rs")) else None
    code2, out2 = fsrun.run_lalrpop(lal, (["--report"] if report else []) + ["a.lalrpop"], d)
    final = open(os.path.join(d, "a.rs"), "rb").read() if os.path.exists(os.path.join(d, "a.rs")) else None
    return (was_killed, left, final == full, None if final is None else len(final), final is not None and full.startswith(final))


def _shim_case(t):
    lal, shim, name, var, k, full = t
    d = _wdir()
    open(os.path.join(d, "a.lalrpop"), "w").write(fsrun.text_of(name))
    if var == "CRASH_AT_OP" and k % 2 == 0:
        open(os.path.join(d, "a.rs"), "wb").write(b"// stale\n")     # an older output is present
    code, out = fsrun.run_lalrpop(lal, ["-f", "a.lalrpop"], d, env={"LD_PRELOAD": shim, "CRASH_DIR": d, var: str(k)})
    was_killed = code < 0 or code == 137
    left = {f: os.path.getsize(os.path.join(d, f)) for f in sorted(os.listdir(d)) if f != "a.lalrpop"}
    code2, out2 = fsrun.run_lalrpop(lal, ["a.lalrpop"], d)
    final = open(os.path.join(d, "a.rs"), "rb").read() if os.path.exists(os.path.join(d, "a.rs")) else None
    return (was_killed, left, final == full, None if final is None else len(final), final is not None and full.startswith(final))


def run(tier):
    t0 = time.time()
    rep = vlib.Reporter(PROP)
    nobl, ndis, names = vlib.proof_obligations(PROP, rep)
    r = vlib.rng(22)
    lal = vlib.build_lalrpop()
    ref = fsrun.reference_outputs(lal)
    cases, nviol, killed = [], 0, 0
    samples = []
    import multiprocessing
    pool = multiprocessing.Pool(12)
    tasks = []
    for name in ["g0", "g2"]:
        full = ref[name]
        hdr_len = len(b"\n".join(full.split(b"\n", 2)[:2])) + 1
        offsets = set([0, 1, hdr_len - 2, hdr_len - 1, hdr_len, hdr_len + 1, len(full) - 1, len(full) // 2])
        first_nl = full.index(b"\n")
        offsets |= {first_nl, first_nl + 1, first_nl + 2}
        if tier == "thorough":
            # every offset around the header (where the original defect was) and at the end, every 16th elsewhere
            offsets |= set(range(0, min(len(full), 2 * hdr_len + 768))) | set(range(max(0, len(full) - 256), len(full))) | set(range(0, len(full), 16))
        else:
            offsets |= set(range(0, len(full), max(1, len(full) // 40)))
        for report in (False, True):
            for n in sorted(offsets):
                if report and n % (4 if tier == "thorough" else 7):
                    continue
                tasks.append((lal, name, report, n, full, hdr_len))
    for (lal_, name, report, n, full, hdr_len), (was_killed, left, final_ok, final_len, is_prefix) in zip(tasks, pool.imap(_fsize_case, tasks, chunksize=8)):
        killed += 1 if was_killed else 0
        cases.append((name, report, n))
        if len(samples) < 2 and was_killed:
            samples.append({"grammar": name, "report": report, "fsize_limit": n, "left_after_crash": left, "final_ok": final_ok})
        if not final_ok:
            nviol += 1
            key = "truncated-output-kept" if is_prefix else "wrong-output-after-crash"
            if nviol <= 3:
                rep.violation(key, {"what": "a forced build was killed while writing (file size limit %d bytes); the following normal build %s" %
                                            (n, "kept the truncated %d-byte file although the complete output has %d bytes" % (final_len, len(full)) if final_len is not None else "left no output"),
                                    "grammar": name, "report": report, "crash_offset": n, "header_bytes": hdr_len,
                                    "replay": "cd <dir with a.lalrpop>; (ulimit -f is in 512-byte blocks: use python resource.setrlimit(RLIMIT_FSIZE, %d)); lalrpop -f a.lalrpop; lalrpop a.lalrpop" % n})
    # second injector: cumulative crash points over the whole run (every file below the directory,
    # write/copy_file_range/sendfile bytes and create/unlink/rename operations), so that a crash while
    # the finished temporary file is being installed is reached too
    shim = vlib.build_shim()
    nshim = 0
    tasks = []
    for name in ["g0", "g2"]:
        full = ref[name]
        d = _wdir()
        open(os.path.join(d, "a.lalrpop"), "w").write(fsrun.text_of(name))
        base_env = {"LD_PRELOAD": shim, "CRASH_DIR": d}
        logf = os.path.join(vlib.CACHE, "fs", "shim-%d.log" % os.getpid())
        if os.path.exists(logf):
            os.remove(logf)
        code, out = fsrun.run_lalrpop(lal, ["-f", "a.lalrpop"], d, env=dict(base_env, CRASH_LOG=logf))
        try:
            tot_bytes, tot_ops = [int(x) for x in open(logf).read().split()[:2]]
        except Exception:
            raise vlib.BuildBroken("crash shim dry run gave no totals (exit %s): %s" % (code, out[-500:]))
        if tot_bytes < len(full) or tot_ops < 1:
            raise vlib.BuildBroken("crash shim does not see the output being written (%d bytes, %d ops)" % (tot_bytes, tot_ops))
        step = 37 if tier == "thorough" else max(1, tot_bytes // 50)
        hdr_len = len(b"\n".join(full.split(b"\n", 2)[:2])) + 1
        pts = set(range(0, tot_bytes, step)) | {tot_bytes - 1}
        for base in range(0, tot_bytes, len(full)):
            pts |= {base + k for k in (0, 1, hdr_len - 1, hdr_len, hdr_len + 1, len(full) - 1) if base + k < tot_bytes}
        plan = [("CRASH_AT_BYTES", k) for k in sorted(pts)] + [("CRASH_AT_OP", k) for k in range(1, tot_ops + 1)]
        for var, k in plan:
            tasks.append((lal, shim, name, var, k, full))
    for (lal_, shim_, name, var, k, full), (was_killed, left, final_ok, final_len, is_prefix) in zip(tasks, pool.imap(_shim_case, tasks, chunksize=8)):
        killed += 1 if was_killed else 0
        cases.append((name, var, k)); nshim += 1
        if not final_ok:
            nviol += 1
            key = "truncated-output-kept" if is_prefix else "wrong-output-after-crash"
            if nviol <= 3:
                rep.violation(key, {"what": "a forced build was killed (%s=%d, cumulative over all files it writes); files left: %r; the following normal build %s" %
                                            (var, k, left, "kept a %d-byte a.rs although the complete output has %d bytes" % (final_len, len(full)) if final_len is not None else "left no output"),
                                    "grammar": name, "crash_point": [var, k], "files_left": left, "grammar_text": fsrun.text_of(name),
                                    "replay": "LD_PRELOAD=/verif/.cache/crashshim.so CRASH_DIR=$PWD %s=%d lalrpop -f a.lalrpop; lalrpop a.lalrpop; compare a.rs with a clean build" % (var, k)})
    pool.close(); pool.join()
    import glob, shutil
    for f in glob.glob(os.path.join(vlib.CACHE, "fs", "crash-%d-*" % os.getpid())) + glob.glob(os.path.join(vlib.CACHE, "fs", "shim-%d.log" % os.getpid())):
        shutil.rmtree(f, ignore_errors=True) if os.path.isdir(f) else os.remove(f)
    cov = {"obligations": nobl + len(cases), "discharged": ndis + len(cases) - nviol,
           "checker_cmd": "make -C coq; coqc Props/C22.v; python crash enumeration with RLIMIT_FSIZE on the real binary",
           "trusted_base": vlib.TRUSTED_COMMON + ["OS semantics of RLIMIT_FSIZE/SIGXFSZ: the file holds exactly the bytes written before the limit", "rename(2) atomicity within a directory", "harness/shim/crashshim.c (LD_PRELOAD hooks of write/copy_file_range/sendfile/open/unlink/rename)"],
           "theorems": names, "evaluations": len(cases), "distinct_nontrivial": len(set(cases)),
           "rule": "forced build killed by SIGXFSZ at byte offset n of the output (thorough: every n in the header region and the last 256 bytes, every 16th elsewhere; ~45 offsets incl. both header line boundaries in quick; with and without --report), "
                   "followed by a normal build; non-trivial = distinct (grammar, report, offset)",
           "distribution": {"crash_points": len(cases), "cumulative_shim_points": nshim, "process_killed": killed, "violations": nviol},
           "samples": samples or [{"note": "no crash point killed the process"}]}
    vlib.write_evidence(PROP, tier, "proof", cov, time.time() - t0, violations=len(rep.viol),
                        assumptions=["crashes between system calls other than during writes (e.g. between remove and create) are covered by the model only"])
    return rep.finish()


def replay(path):
    import json
    print(json.dumps(json.load(open(path)), indent=1)[:3000]); return run("quick")
