"""C27 — generated parsers are reentrant and safe to share across threads.
Theorems (Props/C27.v): calls that own their state do not interfere under any schedule; the per-call
lazy DFA cache is transparent.
Tie, on every run: (1) the generated parser struct holds nothing but the MatcherBuilder (read from the
generated source), `parse` takes &self, and the struct is Sync (enforced by the harness' type bound);
(2) one shared parser value is used from 8 threads, 3 rounds, each thread in a different input order,
and every result must equal the result of a fresh parser on that input alone; also repeated use of
one parser sequentially."""
import re, time, json
import vlib, sgb

PROP = "C27"

GRAMMARS = {
    "calc": ('''grammar;
pub P: i64 = { <l:P> "+" <r:T> => l + r, <l:P> "-" <r:T> => l - r, T };
T: i64 = { <l:T> "*" <r:F> => l * r, F };
F: i64 = { r"[0-9]+" => <>.parse::<i64>().unwrap_or(-1), "(" <P> ")", <v:r"\\p{Greek}+"> => v.chars().count() as i64 };
''', ["1+2*3", "(1+2)*3 - αβγ", "1 + ", "2 * * 3", "((((7))))", "", "12 34", "9 ? 9", "1+2+3+4+5+6+7+8+9*10*11", "αβ*γ+δ", "é", "1 +\n\t2"]),
    "words": ('''grammar;
pub P: Vec<&'input str> = { <mut v:P> <w:W> => { v.push(w); v }, => Vec::new() };
W: &'input str = { r"[a-z]+", r"[A-Z][a-z]*", r"[0-9]+(\\.[0-9]+)?", "if", "else", r"\\p{Han}+" };
''', ["if x else Yy 10 3.5", "漢字 abc", "", "if if else", "a.b", "Zz zZ", "123.456.7", "x " * 40]),
    "matchblk": ('''grammar;
match { "let", "=" , ";" } else { r"[a-z]+" => ID, r"[0-9]+" => NUM } else { r"\\s+" => { }, r"#[^\\n]*" => { } , _ }
pub P: Vec<(String, String)> = { <mut v:P> "let" <i:ID> "=" <e:E> ";" => { v.push((i.to_string(), e)); v }, => vec![] };
E: String = { ID => <>.to_string(), NUM => <>.to_string() };
''', ["let x = 1; let y = x;", "let let = 1;", "# c\nlet a = b ; # d", "let x = ;", "let x 1;", ""]),
    "recover": ('''grammar;
pub P: (Vec<i64>, usize) = { <v:S> => { let n = v.iter().filter(|x| **x < 0).count(); (v, n) } };
S: Vec<i64> = { <mut v:S> <i:I> ";" => { v.push(i); v }, => vec![] };
I: i64 = { r"[0-9]+" => <>.parse().unwrap_or(0), ! => -1 };
''', ["1;2;3;", "1;x;3;", ";;", "1 2;3;", "1;2", "", "a b c;9;"]),
    "pressure": ('''grammar;
pub P: Vec<usize> = { <mut v:P> <w:W> => { v.push(w); v }, => Vec::new() };
W: usize = { r"[ab]+" => <>.len(), r"[ab]*a[ab]{14}c" => 100000 + <>.len(), r"[ab]*b[ab]{14}d" => 200000 + <>.len(), r"[cd]" => 0 };
''', None),
}


def pressure_inputs(r):
    out = []
    for _ in range(6):
        ws = []
        for _ in range(1500):
            w = "".join(r.choice("ab") for _ in range(r.randint(1, 90)))
            z = r.random()
            ws.append(w + ("c" if z < 0.3 else "d" if z < 0.6 else ""))
        out.append(" ".join(ws))
    return out


def run(tier):
    t0 = time.time()
    rep = vlib.Reporter(PROP)
    nobl, ndis, names = vlib.proof_obligations(PROP, rep)
    r = vlib.rng(27)
    lal = vlib.build_lalrpop()
    units, inputs_of = [], {}
    nstruct = nbad = 0
    for name, (text, inputs) in GRAMMARS.items():
        st, rs, out = sgb.generate(lal, "c27_%s_t" % name, text)
        if st != "ok":
            rep.violation("grammar-rejected:" + name, {"what": "lalrpop rejects a grammar of the C27 corpus", "grammar_text": text, "output": out[-800:]}, nofail=True)
            continue
        code = open(rs).read()
        # (1) the parser value: nothing but the builder
        nstruct += 1
        m = re.search(r"pub struct PParser \{(.*?)\n    \}", code, re.S)
        fields = [f.strip() for f in (m.group(1) if m else "?").split(",") if f.strip()]
        okf = all(re.fullmatch(r"builder: [\w:]*MatcherBuilder", f) or f == "_priv: ()" for f in fields)
        sig = re.search(r"pub fn parse<[^{]*?\(\s*&self,", code, re.S) or re.search(r"pub fn parse\(\s*&self,", code)
        if not m or not okf or not sig:
            nbad += 1
            rep.violation("parser-struct-has-state", {"what": "the generated parser struct has fields other than the MatcherBuilder, or parse does not take &self: %r" % fields,
                                                      "grammar_text": text}, nofail=True)
        units.append({"name": "%s_t" % name, "rs": rs, "parsers": ["P"]})
        inputs_of["%s_t" % name] = inputs if inputs is not None else pressure_inputs(r)
    # ascent variants through the attribute
    for name in ("calc", "words"):
        text = GRAMMARS[name][0].replace("grammar;", "#[recursive_ascent]\ngrammar;", 1)
        st, rs, out = sgb.generate(lal, "c27_%s_a" % name, text)
        if st == "ok":
            units.append({"name": "%s_a" % name, "rs": rs, "parsers": ["P"]})
            inputs_of["%s_a" % name] = GRAMMARS[name][1]
    ok, out, binary = sgb.build(units)
    if not ok:
        rep.violation("generated-code-does-not-compile-or-not-sync", {"what": "rustc rejects the harness: a generated parser does not compile or is not Sync", "rustc": out[-2500:]}, nofail=True)
        vlib.write_evidence(PROP, tier, "other", {"explanation": "harness does not compile", "evaluations": 1, "distinct_nontrivial": 0}, time.time() - t0, 1)
        return rep.finish()
    threads, rounds = (8, 3) if tier == "quick" else (16, 12)
    ncase = 0
    dist = {"parsers": len(units), "threads": threads, "rounds": rounds, "ok_results": 0, "err_results": 0}
    for u in units:
        ins = inputs_of[u["name"]]
        base = sgb.run(binary, [(u["name"], "P", s) for s in ins])
        dist["ok_results"] += sum(1 for b in base if b.startswith("OK"))
        dist["err_results"] += sum(1 for b in base if b.startswith("ERR"))
        if any(b == "PANIC" for b in base):
            nbad += 1
            rep.violation("panic:" + u["name"], {"what": "a generated parser panicked", "input": ins[base.index("PANIC")][:500]})
        sh = sgb.run_shared(binary, u["name"], "P", ins, threads=threads, rounds=rounds)
        for t, (stable, res) in enumerate(sh):
            ncase += len(ins)
            diff = [i for i, (a, b) in enumerate(zip(res, base)) if a != b]
            if not stable or diff or len(res) != len(base):
                nbad += 1
                i = diff[0] if diff else 0
                rep.violation("shared-parser-result-differs", {"what": "thread %d using a parser shared with %d other threads got a result that differs from a fresh parser's%s" % (t, threads - 1, "" if stable else " (and from its own earlier rounds)"),
                                                               "parser": u["name"], "input": ins[i][:600], "fresh": base[i][:600] if i < len(base) else None, "shared": res[i][:600] if i < len(res) else None})
                break
    cov = {"obligations": nobl + ncase + nstruct, "discharged": ndis + ncase + nstruct - nbad,
           "checker_cmd": "make -C coq; coqc Props/C27.v; lalrpop on the corpus; cargo build harness/sgb; sequential vs shared-parser multi-thread runs",
           "trusted_base": vlib.TRUSTED_COMMON + ["rustc's Sync check on the parser struct", "OS thread scheduler as the source of interleavings (not exhaustive)", "harness/sgb/src/rt.rs"],
           "theorems": names, "evaluations": ncase, "distinct_nontrivial": sum(len(v) for v in inputs_of.values()),
           "rule": "grammars with the built-in lexer (regex incl. Unicode classes, match blocks with skips, error recovery, borrowed &'input str results, large-DFA patterns that force cache clears), both code generators; "
                   "inputs valid and invalid; %d threads x %d rounds on one shared parser, each thread in its own order" % (threads, rounds),
           "distribution": dist, "samples": [{"parser": units[0]["name"], "input": inputs_of[units[0]["name"]][0]}]}
    vlib.write_evidence(PROP, tier, "proof", cov, time.time() - t0, violations=len(rep.viol),
                        assumptions=["the scheduler's interleavings are sampled, not enumerated; non-interference for ALL interleavings is the model theorem, which relies on the struct/field reading (1) and on Rust's aliasing rules (&self, Sync) for its tie to the code",
                                     "regex-automata's own thread safety is assumed (DFA is immutable after build; Cache is per call)"])
    return rep.finish()


def replay(path):
    print(json.dumps(json.load(open(path)), indent=1)[:4000])
    return run("quick")
