"""C13 — macros, repetitions, groups and conditional alternatives expand by substitution.
Theorems (Props/C13.v): the cache key (canonical form) is injective on source symbols, stable under
the rewriting of arguments; X+/X*/X? denote non-empty lists / lists / options in input order.
Tie, on every run, for random grammars with nested macro uses, groups, repetitions and conditions:
  1. the model (Norm/Macro.v, vm_compute) runs the worklist expansion; the names it creates must be
     exactly the extra nonterminals in lalrpop's output, their number must equal the number of
     *structurally* distinct uses (python expansion by substitution, which never prints anything), and
     the model's verdict on ill-formed uses (unknown macro, arity, condition on a non-literal,
     unbounded recursion) must be lalrpop's;
  2. the rustc-compiled parser returns, for sentences of the substituted grammar, the value the
     statement prescribes (Vec in input order, Option, tuple or single value of a group, the macro's
     action on the substituted arguments) and rejects what the substituted grammar does not derive."""
import re, time, json, copy
import vlib, gram, lrengine, lrcheck, lrtab, cgb, cgcheck

PROP = "C13"
TERMS = ["a", "b", "c", "d", "e", ",", "ab", "cba"]

MACROS = {
    "M0": (["X"], [(None, [("n", "X")]), (None, [("m", "M0", [("n", "X")]), ("t", ","), ("n", "X")])]),
    "M1": (["X", "Y"], [(None, [("n", "X"), ("n", "Y")]), (None, [("n", "Y"), ("n", "X"), ("t", "e")])]),
    "M2": (["X"], [(None, [("t", "d"), ("n", "X"), ("t", "d")]), (None, [("n", "X")])]),
    "M3": (["X"], [(None, [("r", ("n", "X"), "+"), ("t", "e")])]),
    "C0": (["L"], [(("L", "==", "a"), [("n", "L")]), (("L", "!=", "a"), [("n", "L"), ("n", "L")]),
                   (("L", "~~", "^[bc]$"), [("t", "d")]), (("L", "!~", "b"), [("t", "e"), ("t", "e")]),
                   (("L", "~~", "a"), [("t", "d"), ("t", "e")])]),
}
LIT_ONLY = {"C0"}


class MG:
    """users: ordered dict nt -> list of alternatives (list of syms); macros: subset of MACROS"""
    recovery = False

    def __init__(self, name, users, macros):
        self.name, self.users, self.macros = name, users, macros
        self.pubs = [next(iter(users))]
        self.terms = TERMS
        self.rules = {}

    def sym_text(self, s):
        k = s[0]
        if k == "t":
            return '"%s"' % s[1]
        if k == "n":
            return s[1]
        if k == "m":
            return "%s<%s>" % (s[1], ", ".join(self.sym_text(a) for a in s[2]))
        if k == "e":
            return "(%s)" % " ".join(("<%s>" % self.sym_text(x[1])) if x[0] == "c" else self.sym_text(x) for x in s[1])
        if k == "r":
            return self.sym_text(s[1]) + s[2]
        if k == "err":
            return "!"
        raise ValueError(s)

    def render(self, lalr=False, ascent=False, probes=0):
        L = ["use crate::rt::*;"]
        if lalr:
            L.append("#[LALR]")
        if ascent:
            L.append("#[recursive_ascent]")
        L.append("grammar;")
        L.append("extern {\n    type Location = i64;\n    type Error = u64;\n    enum Tok {")
        for i, t in enumerate(self.terms):
            L.append('        "%s" => Tok(\'%s\', _, _, _),' % (t, chr(ord("a") + i)))
        L.append("    }\n}")

        def alt(label, syms, cond=None):
            ss = " ".join("<c%d:%s>" % (j, self.sym_text(s)) for j, s in enumerate(syms))
            c = (' if %s %s "%s"' % cond) if cond else ""
            return '    <l:@L> %s <r:@R>%s => node("%s", l, r, vec![%s]),' % (ss, c, label, ", ".join("Tree::from(c%d)" % j for j in range(len(syms))))
        for m in self.macros:
            ps, alts = MACROS[m]
            L.append("%s<%s>: Tree = {" % (m, ", ".join(ps)))
            for i, (c, syms) in enumerate(alts):
                L.append(alt("%s#%d" % (m, i), syms, c))
            L.append("};")
        for n, (nt, alts) in enumerate(self.users.items()):
            L.append("%s%s: Tree = {" % ("pub " if n == 0 else "", nt))
            for i, syms in enumerate(alts):
                L.append(alt("%s#%d" % (nt, i), syms))
            L.append("};")
        return "\n".join(L) + "\n"

    # ------------------------------------------------------------ Coq side
    def coq_sym(self, s):
        k = s[0]
        if k == "t":
            return 'SLit "%s"' % s[1]
        if k == "n":
            return 'SId "%s"' % s[1]
        if k == "m":
            return 'SMacro "%s" [%s]' % (s[1], "; ".join(self.coq_sym(a) for a in s[2]))
        if k == "e":
            return "SExpr [%s]" % "; ".join(("SChoose (%s)" % self.coq_sym(x[1])) if x[0] == "c" else self.coq_sym(x) for x in s[1])
        if k == "r":
            return "SRepeat (%s) %s" % (self.coq_sym(s[1]), {"*": "Star", "+": "Plus", "?": "Question"}[s[2]])
        return "SError"

    def coq(self):
        defs = []
        for m in self.macros:
            ps, alts = MACROS[m]
            al = []
            for c, syms in alts:
                cc = "None" if c is None else 'Some {| c_lhs := "%s"; c_op := %s; c_rhs := "%s" |}' % (c[0], {"==": "CEq", "!=": "CNe", "~~": "CMatch", "!~": "CNotMatch"}[c[1]], c[2])
                al.append("(%s, [%s])" % (cc, "; ".join(self.coq_sym(s) for s in syms)))
            defs.append('("%s", {| m_params := [%s]; m_alts := [%s] |})' % (m, "; ".join('"%s"' % p for p in ps), "; ".join(al)))
        users = ['("%s", [%s])' % (nt, "; ".join("[%s]" % "; ".join(self.coq_sym(s) for s in a) for a in alts)) for nt, alts in self.users.items()]
        return "enc (expand rematch [%s] 200 [%s])" % ("; ".join(defs), "; ".join(users))


# ---------------------------------------------------------------- expansion by substitution (python, structural)

class Sub:
    def __init__(self, mg):
        self.mg, self.names, self.rules, self.kinds, self.err = mg, {}, {}, {}, None
        for nt, alts in mg.users.items():
            self.kinds[nt] = ("user", nt)
            self.rules[nt] = [[self.sym(s) for s in a] for a in alts]

    def subst(self, env, s):
        k = s[0]
        if k == "n":
            return env.get(s[1], s)
        if k == "m":
            return ("m", s[1], tuple(self.subst(env, a) for a in s[2]))
        if k == "e":
            return ("e", tuple((("c", self.subst(env, x[1])) if x[0] == "c" else self.subst(env, x)) for x in s[1]))
        if k == "r":
            return ("r", self.subst(env, s[1]), s[2])
        return s

    def freeze(self, s):
        k = s[0]
        if k == "m":
            return ("m", s[1], tuple(self.freeze(a) for a in s[2]))
        if k == "e":
            return ("e", tuple((("c", self.freeze(x[1])) if x[0] == "c" else self.freeze(x)) for x in s[1]))
        if k == "r":
            return ("r", self.freeze(s[1]), s[2])
        return tuple(s)

    def sym(self, s):
        """-> plain symbol name (terminal or nonterminal of the substituted grammar)"""
        s = self.freeze(s)
        k = s[0]
        if k == "t":
            return s[1]
        if k == "err":
            return "!"
        if k == "n":
            if s[1] not in self.mg.users:
                self.err = self.err or "unknown nonterminal %s" % s[1]
            return s[1]
        if s in self.names:
            return self.names[s]
        if len(self.names) > 400:
            self.err = self.err or "recursion"
            return "?"
        name = "G%d" % len(self.names)
        self.names[s] = name
        if k == "m":
            if s[1] not in self.mg.macros:
                self.err = self.err or "no macro definition"
                return name
            ps, alts = MACROS[s[1]]
            if len(ps) != len(s[2]):
                self.err = self.err or "arity"
                return name
            env = dict(zip(ps, s[2]))
            kept, rules = [], []
            for i, (c, syms) in enumerate(alts):
                if c is not None:
                    lhs = env.get(c[0])
                    if lhs is None or lhs[0] != "t":
                        self.err = self.err or "invalid condition LHS"
                        return name
                    v = {"==": lhs[1] == c[2], "!=": lhs[1] != c[2], "~~": bool(re.search(c[2], lhs[1])), "!~": not re.search(c[2], lhs[1])}[c[1]]
                    if not v:
                        continue
                kept.append(i)
                rules.append([self.subst(env, x) for x in syms])
            self.kinds[name] = ("macro", s[1], kept)
            self.rules[name] = [[self.sym(x) for x in a] for a in rules]
        elif k == "e":
            sel = [j for j, x in enumerate(s[1]) if x[0] == "c"]
            self.kinds[name] = ("group", sel or list(range(len(s[1]))))
            self.rules[name] = [[self.sym(x[1] if x[0] == "c" else x) for x in s[1]]]
        else:
            inner = s[1]
            if s[2] == "*":
                self.kinds[name] = ("star",)
                self.rules[name] = [[], [self.sym(("r", inner, "+"))]]
            elif s[2] == "+":
                self.kinds[name] = ("plus",)
                self.rules[name] = [[self.sym(inner)], [name, self.sym(inner)]]
            else:
                self.kinds[name] = ("question",)
                self.rules[name] = [[self.sym(inner)], []]
        return name

    def value(self, t, ids):
        """derivation tree (nt, alt, kids) of the substituted grammar -> the value the statement prescribes"""
        if isinstance(t, str):
            return ("leaf", next(ids))
        nt, i, kids = t
        vals = [self.value(k, ids) for k in kids]
        kd = self.kinds[nt]
        if kd[0] == "user":
            return ("node", "%s#%d" % (kd[1], i), vals)
        if kd[0] == "macro":
            return ("node", "%s#%d" % (kd[1], kd[2][i]), vals)
        if kd[0] == "group":
            sel = [vals[j] for j in kd[1]]
            return sel[0] if len(sel) == 1 else ("vals", sel)
        if kd[0] == "star":
            return ("vals", []) if i == 0 else vals[0]
        if kd[0] == "plus":
            return ("vals", [vals[0]]) if i == 0 else ("vals", vals[0][1] + [vals[1]])
        return ("vals", [vals[0]]) if i == 0 else ("vals", [])


def got_value(n):
    if "leaf" in n:
        return ("leaf", n["leaf"]["id"])
    if "vals" in n:
        return ("vals", [got_value(k) for k in n["vals"]])
    if "label" in n:
        return ("node", n["label"], [got_value(k) for k in n["kids"]])
    return ("other", str(n))


# ---------------------------------------------------------------- generation

def gen_sym(r, mg_macros, nts, depth, lit_only=False):
    k = r.random()
    if lit_only or depth == 0 or k < 0.38:
        return ("t", r.choice(["a", "b", "c", "ab", "cba"] if lit_only else ["a", "b", "c"]))
    if k < 0.5:
        return ("n", r.choice(nts))
    if k < 0.72 and mg_macros:
        m = r.choice(mg_macros)
        ps = MACROS[m][0]
        return ("m", m, [gen_sym(r, mg_macros, nts, depth - 1, lit_only=(m in LIT_ONLY)) for _ in ps])
    if k < 0.84:
        n = r.randint(1, 3)
        items = [gen_sym(r, mg_macros, nts, depth - 1) for _ in range(n)]
        if n > 1 and r.random() < 0.4:
            j = r.randrange(n)
            items[j] = ("c", items[j])
        return ("e", items)
    return ("r", gen_sym(r, mg_macros, nts, depth - 1), r.choice("*+?"))


def gen_grammar(r, idx, invalid=None):
    macros = r.sample(sorted(MACROS), r.randint(1, 3))
    nts = ["N%d" % i for i in range(r.randint(1, 3))]
    users = {}
    for i, nt in enumerate(nts):
        alts = []
        for _ in range(r.randint(1, 2)):
            later = nts[i + 1:] or nts
            alts.append([gen_sym(r, macros, later if r.random() < 0.8 else nts, 2) for _ in range(r.randint(1, 3))])
        alts.append([("t", r.choice(["d", "e"]))])
        users[nt] = alts
    if invalid == "arity":
        users[nts[0]].append([("m", macros[0], [("t", "a")] * (len(MACROS[macros[0]][0]) + 1))])
    elif invalid == "nodef":
        users[nts[0]].append([("m", "Zz", [("t", "a")])])
    elif invalid == "cond":
        macros = sorted(set(macros) | {"C0"})
        users[nts[0]].append([("m", "C0", [("n", nts[-1])])])
    elif invalid == "error-vs-bang":
        macros = sorted(set(macros) | {"M2"})
        users["error"] = [[("t", "e")]]
        users[nts[0]] = [[("m", "M2", [("err",)])], [("t", "c"), ("m", "M2", [("n", "error")])]] + users[nts[0]][-1:]
    return MG("mac%d" % idx, users, macros)


HDR = """From Coq Require Import List String Ascii.
From LV Require Import Norm.Macro.
Import ListNotations.
Local Open Scope string_scope.
Definition q : string := String (ascii_of_nat 34) "".
Definition debug (s : string) : string := q ++ s ++ q.
(* the four conditions of the corpus, decided on the literals a..e (regex crate abstracted) *)
Fixpoint has_char (c : ascii) (s : string) : bool :=
  match s with EmptyString => false | String d r => orb (Ascii.eqb c d) (has_char c r) end.
Definition rematch (re s : string) : bool :=
  if String.eqb re "^[bc]$" then orb (String.eqb s "b") (String.eqb s "c")
  else match re with String c EmptyString => has_char c s | _ => false end.
Definition kcode (k : kind) : string := match k with KMacro n _ => "m" | KGroup => "g" | KStar => "s" | KPlus => "p" | KQuestion => "q" end.
Definition enc (r : eres) : list string :=
  match r with
  | EOk items => "ok" :: flat_map (fun it => [kcode (snd (fst it)); key_str debug (fst (fst it))]) items
  | ERecursion => ["recursion"]
  | EError m => ["error"]
  end.
"""


def model(mgs):
    out = vlib.coq_eval_value("c13", HDR, "[%s]" % "; ".join(m.coq() for m in mgs), timeout=2400)
    # a list of lists of Coq string literals
    rows, depth, cur, i = [], 0, None, 0
    while i < len(out):
        ch = out[i]
        if ch == "[":
            depth += 1
            if depth == 2:
                cur = []
        elif ch == "]":
            if depth == 2:
                rows.append(cur); cur = None
            depth -= 1
        elif ch == '"':
            j = i + 1
            buf = []
            while True:
                if out[j] == '"':
                    if j + 1 < len(out) and out[j + 1] == '"':
                        buf.append('"'); j += 2; continue
                    break
                buf.append(out[j]); j += 1
            if cur is not None:
                cur.append("".join(buf))
            i = j
        i += 1
    if len(rows) != len(mgs):
        raise RuntimeError("cannot read the model's answer (%d rows for %d grammars)" % (len(rows), len(mgs)))
    return rows


def run(tier):
    t0 = time.time()
    rep = vlib.Reporter(PROP)
    nobl, ndis, names = vlib.proof_obligations(PROP, rep)
    r = vlib.rng(13)
    lal = vlib.build_lalrpop()
    n = 40 if tier == "quick" else 400
    kinds_inv = [None, None, None, None, None, None, "arity", "nodef", "cond", "error-vs-bang"]
    mgs = [gen_grammar(r, i, invalid=kinds_inv[i % len(kinds_inv)]) for i in range(n)]
    # every condition operator on every kind of literal, in grammars that are certainly conflict free
    for j, lit in enumerate(["a", "b", "c", "ab", "cba"]):
        mgs.append(MG("cond%d" % j, {"N0": [[("t", ","), ("m", "C0", [("t", lit)])], [("t", "c"), ("t", "c"), ("m", "M2", [("m", "C0", [("t", lit)])])]]}, ["C0", "M2"]))
    rows = model(mgs)
    ncase = nbad = 0
    dist = {"grammars": n, "accepted": 0, "conflict": 0, "ill_formed": 0, "created_nonterminals": 0, "words": 0, "accepted_words": 0}

    def bad(key, obj):
        nonlocal nbad
        if key in rep.known:
            rep.violation(key, obj); return
        nbad += 1
        if nbad <= 3:
            rep.violation(key, obj)
    keep = []
    for mg, row in zip(mgs, rows):
        ncase += 1
        st, rs, out = lrengine.generate(lal, mg, "lane")
        base = {"grammar": mg.name, "grammar_text": mg.render()}
        sub = Sub(mg)
        if st in ("panic", "timeout"):
            bad("panicked", dict(base, what="lalrpop %s" % st, output=out[-800:])); continue
        if row[0] != "ok" or sub.err:
            dist["ill_formed"] += 1
            if (row[0] != "ok") != bool(sub.err):
                bad("model-vs-substitution-verdict", dict(base, what="the model says %s, expansion by substitution says %s" % (row[0], sub.err)))
            elif st != "error":
                bad("ill-formed-use-accepted", dict(base, what="the grammar has an ill-formed macro use (%s) but lalrpop says %s" % (sub.err, st), output=out[-600:]))
            continue
        created = row[2::2]
        kinds = row[1::2]
        dist["created_nonterminals"] += len([k for k in kinds if k != "m" or True]) - len(mg.users)
        # structurally distinct uses vs keys
        if len(created) - len(mg.users) != len(sub.names):
            bad("uses-share-an-expansion", dict(base, what="the grammar has %d structurally distinct macro uses/groups/repetitions but only %d expansions are created: two different uses have the same canonical form" %
                                                (len(sub.names), len(created) - len(mg.users)), created=created[len(mg.users):]))
            continue
        if st == "error":
            bad("well-formed-grammar-rejected", dict(base, what="lalrpop rejects a grammar whose macro uses are well formed", output=out[-800:])); continue
        if st != "ok":
            dist["conflict"] += 1
            continue
        dist["accepted"] += 1
        try:
            t = lrtab.parse_rs(rs)[mg.pubs[0]]
        except lrtab.TranslateError as e:
            raise vlib.BuildBroken("translator cannot read the generated parser any more: %s" % e)
        lhs = sorted(set(nm for nm in t["ntnames"].values() if not nm.startswith(("__", "@"))))
        want = sorted(set(created))
        if lhs != want:
            bad("created-names-differ", dict(base, what="the nonterminals in lalrpop's output are not the ones the model creates (names are canonical forms)",
                                             only_in_lalrpop=[x for x in lhs if x not in want], only_in_model=[x for x in want if x not in lhs]))
        keep.append((mg, sub))
    # compiled values
    sel = [(m, s_) for m, s_ in keep if "error" not in m.users]
    sel = [x for x in sel if x[0].name.startswith("cond")] + [x for x in sel if not x[0].name.startswith("cond")][: (10 if tier == "quick" else 80)]
    if sel:
        ok, out, binary, units = cgcheck.build_corpus(rep, lal, [m for m, _ in sel], variants=("t",) if tier == "quick" else ("t", "a"))
        if not ok:
            bad("generated-code-does-not-compile", {"what": "rustc rejects a parser generated from a macro grammar (or the inferred types of the expansions do not fit)", "rustc": out[-2500:]})
        else:
            cases, meta = [], []
            for u in units:
                mg, sub = sel[u["gi"]]
                G = gram.G(mg.name + "_subst", TERMS, sub.rules, pubs=[mg.pubs[0]])
                if not G.reduced(mg.pubs[0]):
                    continue
                for k in range(14 if tier == "quick" else 30):
                    w, tree = G.random_sentence(r, mg.pubs[0], depth=r.randint(2, 7), with_tree=True)
                    if k % 3 == 2:
                        w, tree = lrengine.mutate(G, w, r), None
                        if G.accepts(mg.pubs[0], w):
                            continue
                    items = lrengine.tok_items(G, {"tnames": ['"%s"' % x for x in TERMS]}, w, r)
                    cases.append((u["name"], mg.pubs[0], items, None, [])); meta.append((u, mg, sub, w, tree))
            res = cgb.run(binary, cases)
            for (u, mg, sub, w, tree), d in zip(meta, res):
                ncase += 1
                dist["words"] += 1
                base = {"grammar": mg.name, "grammar_text": mg.render(ascent=(u["variant"] == "a")), "tokens": w, "back_end": "recursive ascent" if u["variant"] == "a" else "table-driven"}
                if tree is None:
                    if d["kind"] == "ok":
                        bad("accepts-more-than-substitution", dict(base, what="the parser accepts an input that the grammar obtained by substitution does not derive"))
                    continue
                dist["accepted_words"] += 1
                if d["kind"] != "ok":
                    bad("rejects-sentence-of-substitution", dict(base, what="the parser rejects a sentence of the grammar obtained by substitution", result=str(d.get("err"))[:300])); continue
                want = sub.value(tree, iter(range(1, len(w) + 1)))
                got = got_value(d["tree"])
                if got != want:
                    bad("wrong-value", dict(base, what="the value is not the one prescribed (Vec in input order / Option / tuple or single value of a group / macro action on substituted arguments)",
                                            value=got, prescribed=want))
    cov = {"obligations": nobl + ncase, "discharged": ndis + ncase - nbad,
           "checker_cmd": "make -C coq; coqc Props/C13.v; coqc .cache/cases/c13/val.v (vm_compute expand); lalrpop; cargo build harness/cgb; run",
           "trusted_base": vlib.TRUSTED_COMMON + ["tools/c13.py: printer, expansion by substitution (structural, never prints) and value rules", "regex conditions decided by a table for the corpus' four conditions", "rustc; harness/cgb"],
           "theorems": names, "evaluations": ncase, "distinct_nontrivial": dist["accepted"] + dist["accepted_words"],
           "rule": "random grammars: 1-3 nonterminals using nested macro uses (list, pair, bracket, repetition-inside-macro, conditional macro with ==, !=, ~~, !~), groups with and without <> selections, "
                   "* + ? on terminals, nonterminals, groups and macro uses; 40% ill-formed or adversarial (arity, unknown macro, condition on a nonterminal, `!` next to a nonterminal named error); "
                   "words: sentences of the substituted grammar with their derivation, every third one mutated into a non-sentence",
           "distribution": dist, "samples": [{"grammar_text": keep[0][0].render()}] if keep else [{"note": "no grammar accepted"}]}
    vlib.write_evidence(PROP, tier, "proof", cov, time.time() - t0, violations=len(rep.viol),
                        assumptions=["named symbols, tuple patterns and lookarounds inside macro arguments are not generated", "regex conditions: only the corpus' patterns"])
    return rep.finish()


def replay(path):
    print(json.dumps(json.load(open(path)), indent=1)[:4000])
    return run("quick")
