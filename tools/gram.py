"""Context-free grammars for the LR engine checks: corpus, random generation, rendering to
.lalrpop (extern tokens), random sentences, and an independent Earley oracle (membership, viable
prefixes, valid continuations) used for the failing-input search, never as a proof."""
import random


class G:
    """terms: list of terminal names; rules: ordered dict nt -> list of alternatives (list of symbol
    names; '!' = error recovery symbol); pubs: start nonterminals.  An alternative may be a tuple
    (symbols, flags) with flags containing 'fallible'."""

    def __init__(self, name, terms, rules, pubs=None, note="", inline=()):
        self.name, self.terms, self.note = name, list(terms), note
        self.inline = set(inline)            # nonterminals marked #[inline]
        self.rules = {}
        self.flags = {}
        for nt, alts in rules.items():
            self.rules[nt] = []
            for i, a in enumerate(alts):
                if isinstance(a, tuple):
                    self.rules[nt].append(list(a[0])); self.flags[(nt, i)] = set(a[1])
                else:
                    self.rules[nt].append(list(a)); self.flags[(nt, i)] = set()
        self.pubs = pubs or [next(iter(rules))]
        self.nts = list(self.rules)
        self.recovery = any("!" in a for alts in self.rules.values() for a in alts)

    # ---------------------------------------------------------- analysis
    def nullable(self):
        n = set()
        ch = True
        while ch:
            ch = False
            for nt, alts in self.rules.items():
                if nt not in n and any(all(s in n for s in a) for a in alts):
                    n.add(nt); ch = True
        return n

    def min_height(self):
        """nt -> minimal derivation height (None if unproductive); '!' counts as unproductive here"""
        h = {}
        ch = True
        while ch:
            ch = False
            for nt, alts in self.rules.items():
                for a in alts:
                    if "!" in a:
                        continue
                    if all((s in self.terms) or (s in h) for s in a):
                        v = 1 + max([h[s] for s in a if s in h] + [0])
                        if nt not in h or v < h[nt]:
                            h[nt] = v; ch = True
        return h

    def reachable(self, start):
        seen, todo = {start}, [start]
        while todo:
            x = todo.pop()
            for a in self.rules[x]:
                for s in a:
                    if s in self.rules and s not in seen:
                        seen.add(s); todo.append(s)
        return seen

    def reduced(self, start):
        h = self.min_height()
        return all(nt in h for nt in self.reachable(start))

    # ---------------------------------------------------------- sentences
    def random_sentence(self, r, start, depth=6, with_tree=False):
        h = self.min_height()
        if start not in h:
            return None

        def go(nt, d):
            alts = [(i, a) for i, a in enumerate(self.rules[nt]) if "!" not in a and all(s in self.terms or s in h for s in a)]
            ok = [(i, a) for i, a in alts if 1 + max([h[s] for s in a if s in h] + [0]) <= max(d, h[nt])]
            i, a = r.choice(ok)
            out, kids = [], []
            for s in a:
                if s in self.terms:
                    out.append(s); kids.append(s)
                else:
                    w, t = go(s, d - 1)
                    out += w; kids.append(t)
            return out, (nt, i, kids)
        w, t = go(start, depth)
        return (w, t) if with_tree else w

    # ---------------------------------------------------------- Earley
    def earley_sets(self, start, w):
        """Returns list of item sets S[0..k] (k = number of tokens consumed before the set became
        empty or len(w)).  Items: (nt, alt, dot, origin).  '!' alternatives are ignored."""
        null = self.nullable_noerr()
        S = [set()]
        for i, a in enumerate(self.rules[start]):
            if "!" not in a:
                S[0].add((start, i, 0, 0))
        for k in range(len(w) + 1):
            todo = list(S[k])
            while todo:
                (nt, ai, d, o) = todo.pop()
                a = self.rules[nt][ai]
                if d < len(a):
                    s = a[d]
                    if s in self.rules:
                        for j, b in enumerate(self.rules[s]):
                            if "!" in b:
                                continue
                            it = (s, j, 0, k)
                            if it not in S[k]:
                                S[k].add(it); todo.append(it)
                        if s in null:
                            it = (nt, ai, d + 1, o)
                            if it not in S[k]:
                                S[k].add(it); todo.append(it)
                else:
                    for (nt2, ai2, d2, o2) in list(S[o]):
                        a2 = self.rules[nt2][ai2]
                        if d2 < len(a2) and a2[d2] == nt:
                            it = (nt2, ai2, d2 + 1, o2)
                            if it not in S[k]:
                                S[k].add(it); todo.append(it)
            if k == len(w):
                break
            nxt = set()
            for (nt, ai, d, o) in S[k]:
                a = self.rules[nt][ai]
                if d < len(a) and a[d] == w[k]:
                    nxt.add((nt, ai, d + 1, o))
            if not nxt:
                break
            S.append(nxt)
        return S

    def nullable_noerr(self):
        n = set()
        ch = True
        while ch:
            ch = False
            for nt, alts in self.rules.items():
                if nt not in n and any("!" not in a and all(s in n for s in a) for a in alts):
                    n.add(nt); ch = True
        return n

    def accepts(self, start, w):
        S = self.earley_sets(start, w)
        if len(S) != len(w) + 1:
            return False
        return any(nt == start and d == len(self.rules[nt][ai]) and o == 0 for (nt, ai, d, o) in S[-1])

    def viable_len(self, start, w):
        """length of the longest viable prefix of w (assuming the grammar is reduced)"""
        return len(self.earley_sets(start, w)) - 1

    def continuations(self, start, u):
        """terminals t such that u.t is a viable prefix, and whether u itself is a sentence (EOF ok)"""
        S = self.earley_sets(start, u)
        if len(S) != len(u) + 1:
            return None
        ts = set()
        for (nt, ai, d, o) in S[-1]:
            a = self.rules[nt][ai]
            if d < len(a) and a[d] in self.terms:
                ts.add(a[d])
        return ts

    # ---------------------------------------------------------- rendering
    def render(self, lalr=False, ascent=False, header_types=("i64", "u64"), probes=0):
        """probes: seed (>0) to sprinkle `@L`/`@R` look-around probes between the symbols of the
        alternatives; their values are reported through probe(label, position, kind, value)."""
        import random as _r
        pr = _r.Random(probes) if probes else None
        L = []
        L.append("use crate::rt::*;")
        if lalr:
            L.append("#[LALR]")
        if ascent:
            L.append("#[recursive_ascent]")
        L.append("grammar;")
        L.append("extern {\n    type Location = %s;\n    type Error = %s;\n    enum Tok {" % header_types)
        for i, t in enumerate(self.terms):
            L.append('        "%s" => Tok(\'%s\', _, _, _),' % (t, chr(ord("a") + i)))
        L.append("    }\n}")
        for nt, alts in self.rules.items():
            vis = "pub " if nt in self.pubs else ""
            if nt in self.inline:
                L.append("#[inline]")
            L.append("%s%s: Tree = {" % (vis, nt))
            for i, a in enumerate(alts):
                syms, plist = [], []
                label = '"%s#%d"' % (nt, i)
                for j, s in enumerate(a + [None]):
                    if pr is not None and pr.random() < 0.35:
                        k = pr.choice("LR")
                        syms.append("<p%s%d:@%s>" % (k, j, k))
                        plist.append("probe(%s, %d, '%s', p%s%d)" % (label, j, k, k, j))
                    if s is None:
                        break
                    if s == "!":
                        syms.append("<el%d:@L> <c%d:!> <er%d:@R>" % (j, j, j))
                    elif s in self.terms:
                        syms.append('<c%d:"%s">' % (j, s))
                    else:
                        syms.append("<c%d:%s>" % (j, s))
                form = [f for f in ("named", "anon") if f in self.flags[(nt, i)]]
                if form and "!" not in a and not plist and "fallible" not in self.flags[(nt, i)]:
                    # the action receives its children through `<>`: named bindings whose names are in
                    # reverse alphabetical order left to right, or anonymous selections
                    if form[0] == "named":
                        ss = ["<v%s%d:%s>" % (chr(ord("z") - (j % 26)), j, ('"%s"' % s) if s in self.terms else s) for j, s in enumerate(a)]
                    else:
                        ss = ["<%s>" % (('"%s"' % s) if s in self.terms else s) for s in a]
                    L.append("    %s => crate::nodex!(%s; <>)," % (" ".join(ss), label))
                    continue
                kids = ", ".join(("err_node(el%d, er%d, c%d)" % (j, j, j)) if a[j] == "!" else ("Tree::from(c%d)" % j) for j in range(len(a)))
                pre = "{ %s; " % "; ".join(plist) if plist else ""
                post = " }" if plist else ""
                if "fallible" in self.flags[(nt, i)]:
                    L.append("    <l:@L> %s <r:@R> =>? %sfallible(%s, l, r, vec![%s])%s," % (" ".join(syms), pre, label, kids, post))
                else:
                    L.append("    <l:@L> %s <r:@R> => %snode(%s, l, r, vec![%s])%s," % (" ".join(syms), pre, label, kids, post))
            L.append("};")
        return "\n".join(L) + "\n"


def corpus():
    C = []
    C.append(G("expr", ["+", "*", "(", ")", "x"], {
        "E": [["E", "+", "T"], ["T"]],
        "T": [["T", "*", "F"], ["F"]],
        "F": [["(", "E", ")"], ["x"]]}))
    C.append(G("list_eps", ["a", ",", ";"], {
        "S": [["L", ";"]],
        "L": [[], ["L", "a"], ["L", ","]]}))
    C.append(G("opt_chain", ["a", "b", "c", "d"], {
        "S": [["A", "B", "C", "d"]],
        "A": [[], ["a"]], "B": [[], ["b"]], "C": [[], ["c"]]}))
    # LR(1) but not LALR(1) (lane-table README G1-like)
    C.append(G("nonlalr", ["a", "b", "c", "d", "e"], {
        "S": [["a", "X", "d"], ["a", "Y", "c"], ["b", "X", "c"], ["b", "Y", "d"]],
        "X": [["e", "X"], ["e"]],
        "Y": [["e", "Y"], ["e"]]}))
    # LR(1) but not LALR(1) where the split states are connected through goto (nonterminal) edges
    C.append(G("nonlalr_goto", ["a", "b", "c", "d", "e", "q"], {
        "S": [["a", "X", "d"], ["a", "Y", "c"], ["b", "X", "c"], ["b", "Y", "d"]],
        "X": [["e", "Q"]], "Y": [["e", "Q"]], "Q": [["q"]]}))
    C.append(G("nonlalr_goto2", ["a", "b", "c", "d", "e", "q", "r"], {
        "S": [["a", "X", "d"], ["a", "Y", "c"], ["b", "X", "c"], ["b", "Y", "d"]],
        "X": [["e", "Q", "R"]], "Y": [["e", "Q", "R"]], "Q": [["q"], ["Q", "q"]], "R": [[], ["r"]]}))
    # merged lookaheads: reductions before the error is detected (expected tokens precision)
    C.append(G("merged", ["a", "b", "c", "d", "e", "f", "x"], {
        "S": [["a", "X", "d"], ["b", "X", "c"], ["a", "Y", "c"], ["b", "Y", "d"]],
        "X": [["e", "X2"]], "Y": [["f", "X2"]], "X2": [["x"]]}))
    C.append(G("stmt", ["id", "=", ";", "{", "}", "if", "else", "(", ")"], {
        "P": [["Ss"]],
        "Ss": [[], ["Ss", "St"]],
        "St": [["id", "=", "Ex", ";"], ["{", "Ss", "}"], ["if", "(", "Ex", ")", "St", "else", "St"]],
        "Ex": [["id"], ["(", "Ex", ")"]]}))
    # an empty left-recursive list after a prefix of two symbols, reduced at end of input
    C.append(G("decl_list", ["let", "id", "+"], {
        "S": [["let", "id", "Items"]],
        "Items": [[], ["Items", "+", "id"]]}))
    C.append(G("decl_opt", ["let", "id", "=", ";"], {
        "S": [["let", "id", "Init", "Semi"]],
        "Init": [[], ["=", "id"]], "Semi": [[], [";"]]}))
    C.append(G("rightrec", ["a", "b"], {
        "S": [["a", "S"], ["b"]]}))
    C.append(G("two_pub", ["x", "y", "+"], {
        "A": [["A", "+", "B"], ["B"]],
        "B": [["x"], ["y", "A", "y"]]}, pubs=["A", "B"]))
    C.append(G("unit_chain", ["x", "z"], {
        "S": [["A", "z"]], "A": [["B"]], "B": [["C"]], "C": [["x"], []]}))
    C.append(G("palin", ["a", "b", "c"], {
        "S": [["a", "S", "a"], ["b", "S", "b"], ["c"]]}))
    # error recovery
    C.append(G("rec_expr", ["+", "(", ")", "x"], {
        "S": [["S", "+", "T"], ["T"]],
        "T": [["x"], ["(", "S", ")"], ["!"]]}))
    C.append(G("rec_stmt", ["id", "=", ";", "{", "}"], {
        "P": [["Ss"]],
        "Ss": [[], ["Ss", "St"]],
        "St": [["id", "=", "id", ";"], ["{", "Ss", "}"], ["!", ";"]]}))
    C.append(G("rec_deep", ["a", "b", "c", "[", "]"], {
        "S": [["L"]],
        "L": [["I"], ["L", "I"]],
        "I": [["a"], ["[", "L", "]"], ["[", "!", "]"], ["b", "!", "c"]]}))
    C.append(G("rec_top", ["x", ";"], {
        "S": [["x", ";"], ["S", "x", ";"], ["!", ";"]]}))
    # `!` directly after a nonterminal: the state in which the token is rejected reduces on `!` while
    # it could still shift (the expected list must be taken BEFORE those reductions)
    C.append(G("rec_after_nt", ["x", "y", "z", ";"], {
        "P": [["Ss"]],
        "Ss": [["St"], ["Ss", "St"]],
        "St": [["E", ";"], ["E", "!", ";"]],
        "E": [["x"], ["x", "y"]]}))
    C.append(G("rec_after_nt2", ["n", "+", "(", ")", ","], {
        "S": [["E"]],
        "E": [["T"], ["E", "+", "T"]],
        "T": [["n"], ["(", "L", ")"], ["(", "L", "!", ")"]],
        "L": [["E"], ["L", ",", "E"]]}))
    # recovery followed by nullable symbols: `accepts` must simulate empty reductions
    C.append(G("rec_opt", ["let", "id", "=", "num", ";"], {
        "S": [["let", "id", "I", ";"], ["let", "!", "I", ";"]],
        "I": [[], ["=", "num"]]}))
    C.append(G("rec_star", ["(", ")", "a", ","], {
        "S": [["(", "L", ")"], ["(", "!", "L", ")"]],
        "L": [[], ["L", "a"]]}))
    C.append(G("rec_opt2", ["a", "b", "c", "d"], {
        "S": [["X", "d"], ["S", "X", "d"]],
        "X": [["a", "O", "P"], ["!", "O", "P"]],
        "O": [[], ["b"]], "P": [[], ["c"]]}))
    # fallible actions
    C.append(G("fall_expr", ["+", "(", ")", "x"], {
        "S": [(["S", "+", "T"], ["fallible"]), ["T"]],
        "T": [(["x"], ["fallible"]), ["(", "S", ")"]]}))
    C.append(G("fall_rec", ["+", "(", ")", "x"], {
        "S": [(["S", "+", "T"], ["fallible"]), (["T"], ["fallible"])],
        "T": [(["x"], ["fallible"]), ["(", "S", ")"], (["!"], ["fallible"])]}))
    # a fallible production that `!` can follow: it is reduced with `!` as lookahead when recovery starts,
    # and its error must come back verbatim also then (with a pending lookahead token, and at end of input)
    C.append(G("fall_rec_after", ["x", "y", "z", ";"], {
        "P": [["Ss"]],
        "Ss": [["St"], ["Ss", "St"]],
        "St": [["E", ";"], ["E", "!", ";"]],
        "E": [(["x"], ["fallible"]), (["x", "y"], ["fallible"])]}))
    C.append(G("fall_rec_after2", ["n", ";", "q"], {
        "S": [["T"], ["S", "T"]],
        "T": [["N", "End"]],
        "N": [(["n"], ["fallible"])],
        "End": [[";"], ["!"]]}))
    C.append(G("fall_eps", ["a", "b"], {
        "S": [["A", "B"]],
        "A": [([], ["fallible"]), (["a", "A"], ["fallible"])],
        "B": [([], ["fallible"]), ["b"]]}))
    return C


def with_forms(g, r):
    """the same grammar with `<>`-style actions (named bindings / anonymous selections) on random alternatives"""
    rules = {}
    for nt, alts in g.rules.items():
        rules[nt] = []
        for i, a in enumerate(alts):
            fl = sorted(g.flags[(nt, i)])
            if a and "!" not in a and "fallible" not in fl and r.random() < 0.7:
                fl.append(r.choice(["named", "named", "anon"]))
            rules[nt].append((list(a), fl))
    return G(g.name + "_forms", g.terms, rules, pubs=list(g.pubs))


def with_inline(g, subset):
    """the same grammar with the given nonterminals marked #[inline]"""
    rules = {nt: [(list(a), sorted(g.flags[(nt, i)])) for i, a in enumerate(alts)] for nt, alts in g.rules.items()}
    return G(g.name + "_inl_" + "_".join(sorted(subset)), g.terms, rules, pubs=list(g.pubs), inline=subset)


def inlinable_subsets(g, r, n=2):
    """random non-empty sets of non-pub nonterminals whose induced reference graph is acyclic"""
    cands = [nt for nt in g.nts if nt not in g.pubs]
    out = []
    for _ in range(n * 4):
        if not cands or len(out) >= n:
            break
        sub = set(x for x in cands if r.random() < 0.6) or {r.choice(cands)}
        # acyclic among themselves?
        order, left = [], set(sub)
        while left:
            free = [x for x in left if not any(s in left for a in g.rules[x] for s in a)]
            if not free:
                break
            order += free; left -= set(free)
        if left:
            # drop the members of cycles
            sub -= left
        if sub and sub not in out:
            out.append(sub)
    return out


def inline_corpus():
    C = []
    C.append(G("inl_pair", ["id", ":", "=", "[", "]", ";"], {
        "S": [["P", "=", "P"], ["K", "K", "K", ";"], ["id", "P", "K"]],
        "P": [["id", ":", "id"]], "K": [["[", "id", "]"]]}))
    C.append(G("inl_nest", ["x", "y", "z", "b", "c"], {
        "S": [["A", "A", "z"]],
        "A": [["B", "x", "B"], ["y"]],
        "B": [["b", "c"], []]}))
    C.append(G("inl_eps", ["a", "b", "c", "o", "p"], {
        "S": [["a", "O", "b", "O", "c"], ["S", "O", "a"]],
        "O": [[], ["o", "p"]]}))
    C.append(G("inl_fall", ["x", "y", "z", "+", "-"], {
        "S": [(["F", "+", "F"], ["fallible"]), ["S", "-", "F", "F"]],
        "F": [(["x", "y"], ["fallible"]), (["z"], ["fallible"]), ([], ["fallible"])]}))
    C.append(G("inl_fall2", ["x", "y", "z"], {
        "S": [["X", "Y"], ["S", "z", "X", "Y"]],
        "X": [(["x"], ["fallible"]), (["x", "x"], ["fallible"])],
        "Y": [(["y"], ["fallible"])]}))
    C.append(G("inl_expr", ["+", "*", "(", ")", "x", "q"], {
        "E": [["E", "+", "T"], ["T"]],
        "T": [["T", "*", "F", "F"], ["F"]],
        "F": [["A", "A"], ["(", "E", ")"]],
        "A": [["x"], ["x", "q"]]}))
    # an inlined nonterminal with fallible AND infallible alternatives, occurring several times in one
    # alternative (the synthetic action is fallible iff some chosen alternative is)
    C.append(G("inl_mixed", ["n", "one", "two", ",", ";"], {
        "S": [["I", ",", "I"], ["S", ";", "I", ",", "I"]],
        "I": [(["n"], ["fallible"]), ["one"], ["two"]]}))
    C.append(G("inl_mixed3", ["n", "one", "z"], {
        "S": [["J", "J", "J", "z"], ["S", "J", "z"]],
        "J": [(["n"], ["fallible"]), ["one"]]}))
    C.append(G("inl_chain", ["a", "b", "c", "d"], {
        "S": [["X", "X", "d"], ["d", "X"]],
        "X": [["Y", "c", "Y"]], "Y": [["Z", "Z"]], "Z": [["a", "b"], ["b"]]}))
    return C


def size_boundary(total):
    """a grammar with exactly `total` productions (counting the synthetic start production) and far fewer
    LR states: the table integer type is chosen at such boundaries (127/128/129 for i8).
    S = A_i t_i ; A_i = one of 5 or 6 shared terminals (told apart by the lookahead t_i)."""
    shared = ["x", "y", "z", "w", "v", "u"]
    n = 20
    want = total - n - 1                     # alternatives of all A_i together
    rules = {"S": [["A%d" % i, "t%d" % i] for i in range(n)]}
    base, extra = divmod(want, n)
    assert 1 <= base <= 5 and total >= 2 * n + 1
    for i in range(n):
        k = base + (1 if i < extra else 0)
        rules["A%d" % i] = [[t] for t in shared[:k]]
    return G("size%d" % total, shared + ["t%d" % i for i in range(n)], rules)


def nonlalr_family(r, idx):
    """LR(1)-but-not-LALR(1) grammars: two contexts (a/b) x two nonterminals with the same body, the body
    reaching its end through a random chain of nonterminals (so that lane-table state splitting has to
    follow goto edges as well as shift edges)."""
    terms = ["a", "b", "c", "d", "e", "q", "r"]
    depth = r.randint(0, 3)
    rules = {"S": [["a", "X", "d"], ["a", "Y", "c"], ["b", "X", "c"], ["b", "Y", "d"]]}
    body = ["e"] if r.random() < 0.7 else []
    chain = ["Q%d" % i for i in range(depth)]
    if chain:
        body = body + [chain[0]]
    elif not body:
        body = ["e"]
    if r.random() < 0.4:
        body = body + ["r"]
    rules["X"] = [list(body)]
    rules["Y"] = [list(body)]
    for i, q in enumerate(chain):
        nxt = chain[i + 1] if i + 1 < len(chain) else None
        alts = []
        if nxt:
            alts.append([nxt] if r.random() < 0.5 else ["q", nxt])
        else:
            alts.append(["q"])
        if r.random() < 0.3:
            alts.append([q, "q"] if nxt is None else ["r", nxt])
        rules[q] = alts
    return G("nonlalr_f%d" % idx, terms, rules)


def nonlalr_matrix(r, idx):
    """Contexts x pairs of look-alike nonterminals: LR(1) grammars that need state splitting at several
    nesting levels.  Pair members have bodies with a common prefix; which follow terminal goes with which
    member depends on the context, so LALR merging conflicts while canonical LR(1) does not."""
    ctxs = ["a", "b", "c"][:r.choice([2, 3, 3])]
    follows = ["d", "m", "n", "p"]
    terms = ctxs + follows + ["e", "q", "r"]
    rules = {"S": []}
    pairs = []
    # level-0 pairs: identical bodies
    n0 = r.choice([1, 2])
    bodies0 = [["e"], ["q"], ["r"], ["e", "e"]]
    r.shuffle(bodies0)
    for i in range(n0):
        a, b = "X%d" % i, "Y%d" % i
        rules[a] = [list(bodies0[i])]
        rules[b] = [list(bodies0[i])]
        pairs.append((a, b))
    # level-1 pairs: a prefix followed by the members of a lower pair
    if r.random() < 0.8:
        lo = r.choice(pairs)
        pre = r.choice(["q", "e", "r"])
        rules["C0"] = [[pre, lo[0]]]
        rules["D0"] = [[pre, lo[1]]]
        pairs.append(("C0", "D0"))
        if r.random() < 0.6:
            # an unrelated pair starting with the same prefix: shares states with C0/D0
            rules["V0"] = [[pre]]
            rules["W0"] = [[pre]]
            pairs.append(("V0", "W0"))
    used = False
    for ci, c in enumerate(ctxs):
        for pi, (a, b) in enumerate(pairs):
            if r.random() < 0.45 and used:
                continue
            f = r.sample(follows, 2)
            if (ci + pi) % 2:
                f.reverse()
            if ci > 0 and r.random() < 0.7:
                # reuse the follow pair of context 0, swapped: this is what defeats LALR merging
                prev = [alt for alt in rules["S"] if alt[0] == ctxs[0] and alt[1] in (a, b)]
                if len(prev) == 2:
                    f = [prev[1][2], prev[0][2]] if ci % 2 else [prev[0][2], prev[1][2]]
            rules["S"].append([c, a, f[0]])
            rules["S"].append([c, b, f[1]])
            used = True
    seen, out = set(), []
    for alt in rules["S"]:
        if tuple(alt) not in seen:
            seen.add(tuple(alt)); out.append(alt)
    rules["S"] = out
    return G("nlmx%d" % idx, terms, rules)


def random_grammar(r, idx, recovery=False, fallible=False):
    """small random grammar; not necessarily conflict free (lalrpop's verdict filters)."""
    nt_n = r.randint(1, 4)
    t_n = r.randint(2, 5)
    terms = ["t%d" % i for i in range(t_n)]
    nts = ["N%d" % i for i in range(nt_n)]
    rules = {}
    for k, nt in enumerate(nts):
        alts = []
        for _ in range(r.randint(1, 3)):
            n = r.choice([0, 0, 1, 1, 2, 2, 3, 4])
            a = []
            for _ in range(n):
                if r.random() < 0.55:
                    a.append(r.choice(terms))
                else:
                    a.append(r.choice(nts))
            if recovery and r.random() < 0.25:
                a.insert(r.randint(0, len(a)), "!")
            alts.append(a)
        # make sure something terminal-only exists for the last nonterminals (productivity)
        if k == nt_n - 1 or r.random() < 0.5:
            alts.append([r.choice(terms)])
        # dedupe
        seen, out = set(), []
        for a in alts:
            if tuple(a) not in seen:
                seen.add(tuple(a))
                out.append((a, ["fallible"]) if fallible and r.random() < 0.3 else a)
        rules[nt] = out
    return G("rnd%d" % idx, terms, rules)
