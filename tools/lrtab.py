"""Translator: reads what lalrpop emitted (the generated .rs of the table-driven back end) into
parse tables + grammar, and renders them for the harness (drv line format) and for Coq (Gallina
terms of LR/Driver.v `tables`).  Trusted only to read literals; validated by running the compiled
parsers against the model on the translated tables (cgbatch tier)."""
import re
import vlib


class TranslateError(Exception):
    pass


def split_modules(src):
    """-> list of (name, text) for every `mod __parse__NAME { ... }` (column-0 closing brace)."""
    out = []
    for m in re.finditer(r"^mod __parse__(\w+) \{\n", src, re.M):
        end = src.index("\n}\n", m.end())
        out.append((m.group(1), src[m.start():end + 3]))
    return out


def _ints(body):
    return [int(x) for x in re.findall(r"-?\d+", re.sub(r"//.*", "", body))]


def parse_goto(txt):
    m = re.search(r"fn __goto\(state: \w+, nt: usize\) -> \w+ \{\s*match nt \{(.*?)\n        \}\n    \}", txt, re.S)
    if not m:
        raise TranslateError("no __goto")
    body = re.sub(r"//.*", "", m.group(1))
    rows = {}
    default = 0
    pos = 0
    pat = re.compile(r"\s*(\d+|_) => (match state \{(.*?)\n            \},|(-?\d+),)", re.S)
    while True:
        mm = pat.match(body, pos)
        if not mm:
            break
        pos = mm.end()
        key = mm.group(1)
        if mm.group(3) is not None:
            row, dflt = {}, None
            for arm in re.finditer(r"([\d\s|.=_]+?) => (\d+),", mm.group(3)):
                pats, tgt = arm.group(1).strip(), int(arm.group(2))
                if pats == "_":
                    dflt = tgt
                    continue
                for p in pats.split("|"):
                    p = p.strip()
                    if "..=" in p:
                        a, b = p.split("..=")
                        for s in range(int(a), int(b) + 1):
                            row[s] = tgt
                    else:
                        row[int(p)] = tgt
            val = (row, dflt)
        else:
            val = ({}, int(mm.group(4)))
        if key == "_":
            default = val[1]
        else:
            rows[int(key)] = val
    if body[pos:].strip():
        raise TranslateError("unparsed __goto text: %r" % body[pos:pos + 80])
    return rows, default


def tokenize_rhs(rhs, names):
    """split a production right-hand side 'a, b, c' into known symbol names (longest match)."""
    out, i = [], 0
    rhs = rhs.strip()
    if not rhs:
        return out
    while True:
        best = None
        for n in names:
            if rhs.startswith(n, i) and (i + len(n) == len(rhs) or rhs.startswith(", ", i + len(n))):
                if best is None or len(n) > len(best):
                    best = n
        if best is None:
            raise TranslateError("unknown symbol at %r in %r" % (rhs[i:i + 30], rhs))
        out.append(best)
        i += len(best)
        if i == len(rhs):
            return out
        i += 2


def parse_module(txt):
    t = {}
    m = re.search(r"const __ACTION: &\[(i8|i16|i32)\] = &\[(.*?)\];", txt, re.S)
    if not m:
        raise TranslateError("no __ACTION (recursive-ascent module?)")
    t["action"] = _ints(m.group(2))
    m = re.search(r"const __EOF_ACTION: &\[\w+\] = &\[(.*?)\];", txt, re.S)
    t["eof"] = _ints(m.group(1))
    m = re.search(r"const __TERMINAL: &\[&str\] = &\[(.*?)\n    \];", txt, re.S)
    t["terminals"] = re.findall(r'r###"(.*?)"###,\n', m.group(1) + "\n", re.S)
    ns = len(t["eof"])
    t["nstates"] = ns
    m = re.search(r"fn __action\(state: \w+, integer: usize\) -> \w+ \{\s*__ACTION\[\(state as usize\) \* (\d+) \+ integer\]", txt)
    if not m:
        raise TranslateError("no __action accessor")
    t["nterm"] = int(m.group(1))
    if t["nterm"] * ns != len(t["action"]):
        raise TranslateError("action table size %d != %d states x %d columns" % (len(t["action"]), ns, t["nterm"]))
    m = re.search(r"fn error_action\(&self, state: \w+\) -> \w+ \{\s*__action\(state, (\d+) - 1\)", txt)
    if not m or int(m.group(1)) != t["nterm"]:
        raise TranslateError("error_action does not read the last column")
    m = re.search(r"fn eof_action\(&self, state: \w+\) -> \w+ \{\s*__EOF_ACTION\[state as usize\]", txt)
    if not m:
        raise TranslateError("eof_action accessor changed")
    m = re.search(r"fn start_state\(&self\) -> Self::StateIndex \{\s*(\d+)\s*\}", txt)
    if not m or m.group(1) != "0":
        raise TranslateError("start state is not 0")
    m = re.search(r"fn uses_error_recovery\(&self\) -> bool \{\s*(true|false)", txt)
    t["recovery"] = m.group(1) == "true"
    # __simulate_reduce
    m = re.search(r"fn __simulate_reduce<.*?match __reduce_index \{(.*?)_ => panic", txt, re.S)
    sim = {}
    for mm in re.finditer(r"(\d+) => (__state_machine::SimulatedReduce::Accept|\{\s*__state_machine::SimulatedReduce::Reduce \{\s*"
                          r"states_to_pop: (\d+),\s*nonterminal_produced: (\d+),)", m.group(1)):
        sim[int(mm.group(1))] = None if mm.group(3) is None else (int(mm.group(3)), int(mm.group(4)))
    np_ = len(sim)
    if sorted(sim) != list(range(np_)):
        raise TranslateError("reduce indices not contiguous")
    t["sim"] = [sim[i] for i in range(np_)]
    # productions: comment + what the __reduce arm / __reduceN returns
    mred = re.search(r"fn __reduce<.*?let \(__pop_states, __nonterminal\) = match __action \{(.*?)\n\s*_ => panic", txt, re.S)
    arms = mred.group(1)
    ind = re.match(r"\n( *)0 => \{", arms)
    if not ind:
        raise TranslateError("cannot find first __reduce arm")
    ind = ind.group(1)
    comments, rets, fallible, start = {}, {}, set(), None
    for mm in re.finditer(r"fn __reduce(\d+)<.*?\n    \{\n(.*?)\n    \}\n", txt, re.S):
        i, body = int(mm.group(1)), mm.group(2)
        c = re.search(r"// (.*?) = (.*?) => ActionFn\((\d+)\);", body)
        comments[i] = (c.group(1), c.group(2), int(c.group(3)))
        r = re.search(r"\n\s*\((\d+), (\d+)\)\s*$", body)
        rets[i] = (int(r.group(1)), int(r.group(2)))
        t.setdefault("pops", {})[i] = len(re.findall(r"= __pop_Variant\d+\(__symbols\);", body))
    for mm in re.finditer(r"\n" + ind + r"(\d+) => \{\n(.*?)\n" + ind + r"\}", arms, re.S):
        i, body = int(mm.group(1)), mm.group(2)
        c = re.search(r"// (.*?) = (.*?) => ActionFn\((\d+)\);", body)
        if c is None:
            continue  # call of __reduceN
        comments[i] = (c.group(1), c.group(2), int(c.group(3)))
        t.setdefault("pops", {})[i] = len(re.findall(r"= __pop_Variant\d+\(__symbols\);", body))
        if "return Some(Ok(" in body:
            if start is not None:
                raise TranslateError("two start productions")
            start = i
        else:
            r = re.search(r"\n\s*\((\d+), (\d+)\)\s*$", body)
            rets[i] = (int(r.group(1)), int(r.group(2)))
        if "return Some(Err(e))" in body:
            fallible.add(i)
    if start is None:
        raise TranslateError("no start production arm")
    if sorted(comments) != list(range(np_)):
        raise TranslateError("production comments missing: have %d of %d" % (len(comments), np_))
    t["start"] = start
    t["fallible"] = sorted(fallible)
    t["actionfn"] = [comments[i][2] for i in range(np_)]
    # tail of __reduce: truncate(len - pop); goto(last, nt); push
    tail = txt[mred.end():mred.end() + 900]
    for needle in ["__states.truncate(__states_len - __pop_states);", "let __state = *__states.last().unwrap();",
                   "let __next_state = __goto(__state, __nonterminal);", "__states.push(__next_state);"]:
        if needle not in tail:
            raise TranslateError("__reduce tail changed: missing %r" % needle)
    # symbols
    ntidx = {}
    for i in range(np_):
        lhs = comments[i][0]
        if i == start:
            continue
        if lhs in ntidx and ntidx[lhs] != rets[i][1]:
            raise TranslateError("nonterminal %s has two indices" % lhs)
        ntidx[lhs] = rets[i][1]
    nnt = (max(ntidx.values()) + 1) if ntidx else 0
    start_lhs = comments[start][0]
    if start_lhs not in ntidx:
        ntidx[start_lhs] = nnt
        nnt += 1
    tnames = list(t["terminals"]) + (["error"] if t["recovery"] else [])
    if len(tnames) != t["nterm"]:
        raise TranslateError("terminal count %d != columns %d" % (len(tnames), t["nterm"]))
    tidx = {n: i for i, n in enumerate(tnames)}
    names = sorted(set(ntidx) | set(tidx), key=len, reverse=True)
    prods = []
    for i in range(np_):
        lhs, rhs, _ = comments[i]
        syms = []
        for s in tokenize_rhs(rhs, names):
            # a name that is both a terminal and a nonterminal cannot occur (resolve rejects it)
            syms.append(("N", ntidx[s]) if s in ntidx else ("T", tidx[s]))
        prods.append((ntidx[lhs], syms))
        if i != start:
            if rets[i][0] != len(syms):
                raise TranslateError("production %d: __reduce returns pop %d for %d symbols" % (i, rets[i][0], len(syms)))
        if t["pops"][i] != len(syms):
            raise TranslateError("production %d pops %d symbols for %d" % (i, t["pops"][i], len(syms)))
    t["prods"] = prods
    t["nnt"] = nnt
    t["ntnames"] = {v: k for k, v in ntidx.items()}
    t["tnames"] = tnames
    rows, default = parse_goto(txt)
    g = []
    for nt in range(nnt):
        if nt in rows:
            row, d = rows[nt]
            g.append([row.get(s, d if d is not None else 0) for s in range(ns)])
        else:
            g.append([default] * ns)
    t["goto"] = g
    return t


def parse_rs(path):
    src = vlib.norm_prefix(open(path).read())
    mods = split_modules(src)
    out = {}
    for name, txt in mods:
        if "const __ACTION" in txt:
            out[name] = parse_module(txt)
    return out


# ---------------------------------------------------------------- renderers

def sym_txt(s):
    return ("t%d" if s[0] == "T" else "n%d") % s[1]


def to_drv(tid, t):
    L = ["T %s %d %d %d %d" % (tid, t["nterm"], len(t["terminals"]), 1 if t["recovery"] else 0, t["start"]),
         "A " + " ".join(map(str, t["action"])), "E " + " ".join(map(str, t["eof"])),
         "G %d %d " % (t["nnt"], t["nstates"]) + " ".join(str(x) for row in t["goto"] for x in row)]
    for nt, rhs in t["prods"]:
        L.append("P %d %s" % (nt, " ".join(sym_txt(s) for s in rhs)))
    for s in t["sim"]:
        L.append("S %d %d" % (s if s else (0, -1)))
    return "\n".join(L) + "\n"


def coq_sym(s):
    return ("Tm %d" if s[0] == "T" else "Nt %d") % s[1]


def to_coq(t):
    def zl(l):
        return "[" + "; ".join("%d" % x if x >= 0 else "(%d)" % x for x in l) + "]%Z"
    def nl(l):
        return "[" + "; ".join(str(x) for x in l) + "]"
    prods = "[" + "; ".join("(%d, [%s])" % (nt, "; ".join(coq_sym(s) for s in rhs)) for nt, rhs in t["prods"]) + "]"
    return ("{| tn_term := %d; tn_names := %d; uses_recovery := %s; action := %s; eof_action := %s;\n"
            "   goto_tbl := %s; prods := %s; start_prod := %d; sim_pop := %s; sim_nt := %s |}" % (
                t["nterm"], len(t["terminals"]), "true" if t["recovery"] else "false", zl(t["action"]), zl(t["eof"]),
                "[" + "; ".join(nl(r) for r in t["goto"]) + "]", prods, t["start"],
                nl([s[0] if s else 0 for s in t["sim"]]),
                "[" + "; ".join("Some %d" % s[1] if s else "None" for s in t["sim"]) + "]"))
