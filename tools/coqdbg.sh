#!/bin/sh
# usage: coqdbg.sh <file.v> <line>   -- feeds the first <line> lines to coqtop and shows the goals there
f=$1; n=$2
(head -n "$n" "$f"; echo "Show."; ) | coqtop -Q /verif/coq/theories LV 2>&1 | tail -${3:-40}
