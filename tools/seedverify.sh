#!/bin/bash
# usage: seedverify.sh <worktree> <out-log>
# Confirms a seeded change: demo fails with it, passes without it; the full test suite passes with it.
wt=$1; log=$2
cd "$wt" || exit 2
export CARGO_NET_OFFLINE=true
{
echo "== patch"; git diff --stat -- lalrpop lalrpop-util
echo "== demo WITH change"; (cd _demo && timeout 1800 cargo test --offline 2>&1 | tail -5); 
echo "== demo WITHOUT change"; git stash -q; (cd _demo && timeout 1800 cargo test --offline 2>&1 | tail -5); git stash pop -q
echo "== full suite WITH change"; timeout 3000 cargo test --workspace --no-fail-fast --offline 2>&1 | grep -E "^test result|FAILED|failed" | head -40
echo "== done"
} > "$log" 2>&1
