"""C14 — inlining a nonterminal preserves language and parse results.
Theorems (Props/C14.v): the inlining transformation on grammars (Norm/Inline.v) preserves derivation
trees and yields.
Tie, on every run: for grammars x inlinable subsets, (1) the productions lalrpop prints for the grammar
with #[inline] are the model's inlined productions (vm_compute); (2) the rustc-compiled parsers of the
plain and of the inlined grammar (both back ends) return the same value -- tree, node spans of
non-empty nodes, action order -- or the same error for the same inputs and oracle of failing actions."""
import time, json, re
import vlib, gram, lrengine, lrcheck, lrtab, cgb, cgcheck

PROP = "C14"


def nonempty_spans(n):
    """tree with spans kept only on nodes deriving at least one token"""
    if "label" not in n:
        return n
    kids = [nonempty_spans(k) for k in n["kids"]]
    # a boundary that coincides with an empty first/last child is the location value of an empty
    # derivation (excluded by the statement, see C06)
    lo = n["lo"] if edge_is_token(n, 0) else None
    hi = n["hi"] if edge_is_token(n, -1) else None
    return {"label": n["label"], "span": (lo, hi), "kids": kids}


def edge_is_token(n, side):
    """the leftmost (side 0) / rightmost (side -1) path of the node ends in a token, not in an empty node"""
    if "leaf" in n:
        return True
    return bool(n.get("kids")) and edge_is_token(n["kids"][side], side)


def lrcheck_leaves(n):
    if "leaf" in n:
        return 1
    if "kids" in n:
        return sum(lrcheck_leaves(k) for k in n["kids"])
    return 0


def norm(d):
    out = {"kind": d["kind"]}
    if d["kind"] == "ok":
        out["tree"] = nonempty_spans(d["tree"])
    elif d["kind"] == "err":
        e = dict(d["err"]); e.pop("span", None)
        e.pop("expected", None)     # lists of expected tokens may legitimately differ between automata (C05)
        out["err"] = e
    return out


def expected_acts(n, sub):
    """order in which the actions run in the parser of the inlined grammar: an inlined action runs, left
    to right, just before the action of the production it was inlined into"""
    def is_inl(k):
        return "label" in k and k["label"].split("#")[0] in sub

    def flat(n):
        out = []
        for k in n.get("kids", []):
            if "label" not in k:
                continue
            out += flat(k) if is_inl(k) else acts(k)
        return out

    def inl(n):
        out = []
        for k in n.get("kids", []):
            if is_inl(k):
                out += inl(k) + [k["label"]]
        return out

    def acts(n):
        return flat(n) + inl(n) + [n["label"]]
    return acts(n)


def same_up_to_inline_order(got, want, sub):
    """the two action sequences agree except for the relative order of actions of *different* inlined
    nonterminals within one block of inlined actions"""
    def blocks(seq):
        out, cur = [], []
        for x in seq:
            if x.split("#")[0] in sub:
                cur.append(x)
            else:
                out.append((cur, x)); cur = []
        return out + [(cur, None)]
    bg, bw = blocks(got), blocks(want)
    if len(bg) != len(bw):
        return False
    for (cg, xg), (cw, xw) in zip(bg, bw):
        if xg != xw or sorted(cg) != sorted(cw):
            return False
        for nt in sub:
            if [x for x in cg if x.split("#")[0] == nt] != [x for x in cw if x.split("#")[0] == nt]:
                return False
    return True


# ---------------------------------------------------------------- model side (productions)

def coq_grammar(g):
    """nonterminals and terminals numbered; productions (lhs, [sym], id)"""
    nts = {nt: i for i, nt in enumerate(g.nts)}
    ts = {t: i for i, t in enumerate(g.terms)}
    prods = []
    for nt in g.nts:
        for i, a in enumerate(g.rules[nt]):
            prods.append("(%d, [%s])" % (nts[nt], "; ".join(("NT %d" % nts[s]) if s in nts else ("T %d" % ts[s]) for s in a)))
    return "[%s]" % "; ".join(prods), nts, ts


HDR = """From Coq Require Import List Arith.
From LV Require Import Norm.Inline.
Import ListNotations.
Definition enc_sym (s : sym) : list nat := match s with T t => [0; t] | NT n => [1; n] end.
Definition enc_prod (p : nat * list sym) : list nat := fst p :: List.length (snd p) :: flat_map enc_sym (snd p).
Definition enc (x : option (list (nat * list sym))) : list nat :=
  match x with None => [0] | Some l => 1 :: List.length l :: flat_map enc_prod l end.
"""


def model_inline(jobs):
    """jobs: list of (g, subset) -> list of sorted named productions or None (cyclic)"""
    terms = []
    for g, sub in jobs:
        ps, nts, ts = coq_grammar(g)
        terms.append("enc (option_map (@map _ _ erase) (inline_grammar [%s] (number %s)))" % ("; ".join(str(nts[x]) for x in sorted(sub, key=lambda x: nts[x])), ps))
    out = vlib.coq_eval_value("c14", HDR, "[%s]" % "; ".join(terms), timeout=2400)
    rows = re.findall(r"\[([\d;\s]*)\]", out[1:])
    res = []
    for (g, sub), row in zip(jobs, rows):
        nums = [int(x) for x in re.findall(r"\d+", row)]
        if nums[0] == 0:
            res.append(None); continue
        n, pos, ps = nums[1], 2, []
        for _ in range(n):
            lhs, k = nums[pos], nums[pos + 1]; pos += 2
            syms = []
            for i in range(k):
                kind, x = nums[pos], nums[pos + 1]; pos += 2
                syms.append(g.terms[x] if kind == 0 else g.nts[x])
            ps.append((g.nts[lhs], tuple(syms)))
        res.append(sorted(ps))
    if len(res) != len(jobs):
        raise RuntimeError("cannot read the model's answer")
    return res


def named_prods(t):
    def nm(s):
        return t["tnames"][s[1]].strip('"') if s[0] == "T" else t["ntnames"][s[1]]
    return sorted((t["ntnames"][lhs], tuple(nm(s) for s in rhs)) for i, (lhs, rhs) in enumerate(t["prods"])
                  if not t["ntnames"][lhs].startswith(("__", "@")))


def run(tier):
    t0 = time.time()
    rep = vlib.Reporter(PROP)
    nobl, ndis, names = vlib.proof_obligations(PROP, rep)
    r = vlib.rng(14)
    lal = vlib.build_lalrpop()
    base = gram.inline_corpus() + [g for g in gram.corpus() if not g.recovery and len(g.nts) > 1]
    nrand = 10 if tier == "quick" else 120
    base += [gram.random_grammar(r, i, fallible=(i % 3 == 0)) for i in range(nrand)]
    pairs = []
    for g in base:
        for sub in gram.inlinable_subsets(g, r, n=2 if tier == "quick" else 3):
            pairs.append((g, gram.with_inline(g, sub), sub))
    dist = {"pairs": len(pairs), "both_ok": 0, "conflict_in_one": 0, "words": 0, "accepted": 0, "user_errors": 0, "skipped_user_error_on_nonsentence": 0,
            "inlined_occurrences": 0, "productions_compared": 0}
    ncase = nbad = 0

    def bad(key, obj):
        nonlocal nbad
        if key in rep.known:
            rep.violation(key, obj)
            return
        nbad += 1
        if nbad <= 3:
            rep.violation(key, obj)
    # 1. lowered productions against the model
    model = model_inline([(g, sub) for g, gi, sub in pairs])
    keep = []
    for (g, gi, sub), mp in zip(pairs, model):
        sp, _, op = lrengine.generate(lal, g, "lane")
        si, rsi, oi = lrengine.generate(lal, gi, "lane")
        basei = {"grammar": gi.name, "grammar_text": gi.render(), "inlined": sorted(sub)}
        if si in ("panic", "timeout") or sp in ("panic", "timeout"):
            ncase += 1
            bad("panicked", dict(basei, what="lalrpop %s" % si, output=oi[-800:])); continue
        if mp is None:
            ncase += 1
            bad("model-rejects-acyclic-subset", dict(basei, what="the model reports a cyclic inline set for an acyclic subset")); continue
        if sp != "ok" or si != "ok":
            dist["conflict_in_one"] += 1
            continue
        dist["both_ok"] += 1
        ncase += 1
        try:
            ti = lrtab.parse_rs(rsi)
        except lrtab.TranslateError as e:
            raise vlib.BuildBroken("translator cannot read the generated parser any more: %s" % e)
        got = sorted(set(p for t in ti.values() for p in named_prods(t)))
        want = sorted(set(mp))          # the productions of the inlined nonterminals stay in the grammar
        dist["productions_compared"] += len(want)
        dist["inlined_occurrences"] += sum(1 for nt in g.nts if nt not in sub for a in g.rules[nt] for s in a if s in sub)
        if got != want:
            bad("productions-differ", dict(basei, what="the productions of the grammar with #[inline] are not the model's inlined productions",
                                           only_in_lalrpop=[list(map(str, x)) for x in got if x not in want][:10], only_in_model=[list(map(str, x)) for x in want if x not in got][:10]))
        keep.append((g, gi, sub))
    # 2. compiled parsers, plain against inlined
    variants = ("t",) if tier == "quick" else ("t", "a")
    gs = []
    for g, gi, sub in keep:
        gs += [g, gi]
    if gs:
        ok, out, binary, units = cgcheck.build_corpus(rep, lal, gs, variants=variants)
        if not ok:
            rep.violation("generated-code-does-not-compile", {"what": "rustc rejects a generated parser", "rustc": out[-3000:]})
            vlib.write_evidence(PROP, tier, "other", {"explanation": "generated parsers do not compile", "evaluations": 1, "distinct_nontrivial": 0}, time.time() - t0, 1)
            return rep.finish()
        byg = {}
        for u in units:
            byg[(u["gi"], u["variant"])] = u
        per = 30 if tier == "quick" else 60
        cases, meta = [], []
        for k, (g, gi, sub) in enumerate(keep):
            for v in variants:
                up, ui = byg.get((2 * k, v)), byg.get((2 * k + 1, v))
                if not up or not ui:
                    continue
                labs = [(nt, i) for nt in g.nts for i in range(len(g.rules[nt])) if "fallible" in g.flags[(nt, i)]]
                for st in g.pubs:
                    if not g.reduced(st):
                        continue
                    for n, w in enumerate(lrcheck.gen_words(g, st, r, per)):
                        items = lrengine.tok_items(g, {"tnames": ['"%s"' % t for t in g.terms]}, w, r)
                        orc = []
                        if labs and n % 2 == 0:
                            nt, i = r.choice(labs)
                            orc = [("%s#%d" % (nt, i), r.choice([it[2] for it in items] + [0]), r.randint(100, 199))]
                        if len(labs) > 1 and n % 6 == 5:
                            # two failing actions: every fallible action applied to the first token fails
                            orc = [("%s#%d" % (nt, i), it[2], 200 + k2) for k2, (nt, i) in enumerate(labs) for it in items[:6]]
                        cases.append((up["name"], st, items, None, orc)); cases.append((ui["name"], st, items, None, orc))
                        meta.append((k, v, st, w, orc))
        res = cgb.run(binary, cases)
        for j, (k, v, st, w, orc) in enumerate(meta):
            g, gi, sub = keep[k]
            a, b = res[2 * j], res[2 * j + 1]
            ncase += 1
            dist["words"] += 1
            acc = g.accepts(st, w)
            dist["accepted"] += acc
            usr = [d for d in (a, b) if d["kind"] == "err" and d["err"]["e"] == "User"]
            dist["user_errors"] += 1 if usr else 0
            if usr and not acc:
                # an action of a production that the plain parser has already reduced fails before the
                # syntax error is reached; the inlined parser reaches the syntax error first. Not a sentence:
                # outside "the value or user error returned" of the statement only if both are errors.
                if a["kind"] == "err" and b["kind"] == "err":
                    dist["skipped_user_error_on_nonsentence"] += 1
                    continue
            na, nb_ = norm(a), norm(b)
            if len(orc) > 1 and len(usr) == 2 and a["err"]["error"] != b["err"]["error"]:
                # several actions fail on this input: the statement itself says that inlined actions run
                # later (just before the action of the enclosing production), so which of the failures is
                # reported first may differ; only "both fail" is demanded (DESIGN.md section 4, C14)
                dist["several_failing_actions_different_error"] = dist.get("several_failing_actions_different_error", 0) + 1
                continue
            if a["kind"] == "ok" and b["kind"] == "ok" and na == nb_:
                wa, wb = expected_acts(a["tree"], set()), expected_acts(b["tree"], sub)
                if a["acts"] == wa and b["acts"] != wb and same_up_to_inline_order(b["acts"], wb, sub):
                    bad("action-order-among-different-inlined-nonterminals",
                        {"what": "two different #[inline] nonterminals occur in one production: their actions run in the order in which the nonterminals were inlined "
                                 "(later inlined first), not left to right", "grammar": g.name, "inlined_grammar_text": gi.render(), "start": st, "tokens": w,
                         "inlined_order": b["acts"], "left_to_right_order": wb})
                    continue
                if a["acts"] != wa or b["acts"] != wb:
                    bad("action-order", {"what": "actions do not run in the stated order (inlined actions left to right just before the action of the production they were inlined into)",
                                         "grammar": g.name, "inlined_grammar_text": gi.render(), "start": st, "tokens": w, "plain_order": a["acts"], "inlined_order": b["acts"],
                                         "expected_inlined_order": wb})
                    continue
            if na != nb_:
                bad("inlining-changes-result", {"what": "the parser generated with #[inline] on %s returns a different result from the plain one" % sorted(sub),
                                                "back_end": "recursive ascent" if v == "a" else "table-driven", "grammar": g.name, "grammar_text": g.render(), "inlined_grammar_text": gi.render(),
                                                "start": st, "tokens": w, "items": [list(x) for x in cases[2 * j][2]], "failing_actions": [list(o) for o in orc],
                                                "plain": na, "inlined": nb_})
    cov = {"obligations": nobl + ncase, "discharged": ndis + ncase - nbad,
           "checker_cmd": "make -C coq; coqc Props/C14.v; coqc .cache/cases/c14/val.v (vm_compute inline_grammar); lalrpop on plain and #[inline] grammars; cargo build harness/cgb; run both",
           "trusted_base": vlib.TRUSTED_COMMON + ["rustc", "harness/cgb/src/rt.rs", "tools/lrtab.py production comments reader", "tools/gram.py printer"],
           "theorems": names, "evaluations": ncase, "distinct_nontrivial": dist["both_ok"] + dist["accepted"],
           "rule": "inline corpus (repeated multi-symbol occurrences, nested inlining, empty and fallible inlined productions) + LR corpus + random grammars x random acyclic subsets of non-pub "
                   "nonterminals; words: sentences + mutations + random streams, every second one with a failing fallible action; empty nodes' spans excluded",
           "distribution": dist, "samples": [{"grammar": keep[0][0].name, "inlined": sorted(keep[0][2])}] if keep else [{"note": "no pair accepted"}]}
    vlib.write_evidence(PROP, tier, "proof", cov, time.time() - t0, violations=len(rep.viol),
                        assumptions=["inputs that are not sentences and on which a fallible action fails are compared only when exactly one of the parsers errs",
                                     "the action code itself (build/action.rs: emit_inline_action_code) is observed through compiled parsers, not modelled"])
    return rep.finish()


def replay(path):
    print(json.dumps(json.load(open(path)), indent=1)[:4000])
    return run("quick")
