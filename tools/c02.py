"""C02 — results are the actions evaluated over the derivation tree, once per node, in post-order."""
import time
import vlib, gram, lrengine, lrcheck, cgb, cgcheck

PROP = "C02"


def make_judge(c):
    def judge(case, d):
        tid, items, orc, meta = case
        e = c.ok[int(tid[1:])]
        if d["kind"] != "ok":
            return None
        tr = d["tree"]
        want = lrcheck.postorder(tr, e["t"]["start"])
        def has_err(n):
            return "err" in n or any(has_err(k) for k in n.get("kids", []))
        def subseq(a, b):
            it = iter(b)
            return all(x in it for x in a)
        if has_err(tr):
            # error recovery discards symbols whose actions already ran: the tree's nodes must still
            # have run, in post-order, among them
            if not subseq(want, d["acts"]):
                return ("actions-not-postorder", "the actions of the returned tree's nodes did not run in post-order")
        elif d["acts"] != want:
            return ("actions-not-postorder", "the user actions ran in an order/multiplicity different from the post-order of the returned tree")
        # every node's children must be the production's right-hand side, left to right
        def chk(n):
            if "kids" not in n:
                return True
            nt, rhs = e["t"]["prods"][n["p"]]
            if len(rhs) != len(n["kids"]):
                return False
            for k, s in zip(n["kids"], rhs):
                if "leaf" in k and not (s[0] == "T" and s[1] == k["leaf"]["idx"]):
                    return False
                if "kids" in k and not (s[0] == "N" and e["t"]["prods"][k["p"]][0] == s[1]):
                    return False
                if not chk(k):
                    return False
            return True
        if not chk(tr):
            return ("children-mismatch", "an action received children that are not its production's symbols in order")
        if not e["g"].recovery and lrcheck.leaves(tr) != [{"idx": it[1], "id": it[2], "lo": it[3], "hi": it[4]} for it in items]:
            return ("leaves-mismatch", "the values passed to the actions are not the input tokens in order")
        return None
    return judge


def run(tier):
    t0 = time.time()
    rep = vlib.Reporter(PROP)
    nobl, ndis, names = vlib.proof_obligations(PROP, rep)
    r = vlib.rng(2)
    gs = gram.corpus()
    nrand = 10 if tier == "quick" else 120
    gs += [gram.random_grammar(r, i, recovery=(i % 4 == 0)) for i in range(nrand)]
    c = lrcheck.prepare(gs, modes=("lane", "lalr") if tier == "quick" else ("lane", "lr1", "lalr"))
    cobl, cdis, failing = lrcheck.certify(PROP, rep, c, parts=("shape", "exact"), name="c02cert")
    per = 10 if tier == "quick" else 30
    cases = []
    for e in c.ok:
        g = e["g"]
        if e["start"] not in g.min_height():
            continue
        for i in range(per):
            w = g.random_sentence(r, e["start"], depth=r.randint(1, 7))
            if g.recovery and i % 3 == 0:
                w = lrengine.mutate(g, w, r)
            cases.append((e["tid"], lrengine.tok_items(g, e["t"], w, r), [], {}))
    dec, nbad = lrcheck.correspond(PROP, rep, c, cases, make_judge(c), "c02")
    lrcheck.report_cert_failures(PROP, rep, c, failing, bool(rep.viol), make_judge(c), r)
    # compiled tier: what the action *receives* when it is written with `<>` (named bindings in
    # non-alphabetical order, anonymous selections): children left to right
    fg = [gram.with_forms(g, r) for g in gs if not g.recovery][: (14 if tier == "quick" else 80)]
    lal = vlib.build_lalrpop()
    okb, outb, binary, units = cgcheck.build_corpus(rep, lal, fg, variants=("t",) if tier == "quick" else ("t", "a"))
    ncomp = nbadc = 0
    if not okb:
        rep.violation("generated-code-does-not-compile", {"what": "rustc rejects a parser generated from a grammar whose actions use `<>`", "rustc": outb[-2500:]})
        nbadc += 1
    else:
        ccases, cmeta = [], []
        for u in units:
            g = u["g"]
            for st in g.pubs:
                if st not in g.min_height():
                    continue
                for _ in range(8 if tier == "quick" else 20):
                    w, tree = g.random_sentence(r, st, depth=r.randint(1, 6), with_tree=True)
                    items = lrengine.tok_items(g, {"tnames": ['"%s"' % t for t in g.terms]}, w, r)
                    ccases.append((u["name"], st, items, None, [])); cmeta.append((u, tree, w))
        res = cgb.run(binary, ccases)

        def shape(n):
            if "leaf" in n:
                return ("leaf", n["leaf"]["id"])
            return (n.get("label"), [shape(k) for k in n.get("kids", [])])

        def want(t, ids):
            if isinstance(t, str):
                return ("leaf", next(ids))
            nt, i, kids = t
            return ("%s#%d" % (nt, i), [want(k, ids) for k in kids])
        for (u, tree, w), d in zip(cmeta, res):
            ncomp += 1
            if d["kind"] != "ok":
                continue          # ambiguity-free sentence rejected: C01's business, reported there
            exp = want(tree, iter(range(1, len(w) + 1)))
            got = shape(d["tree"])
            if got != exp:
                nbadc += 1
                if nbadc <= 3:
                    rep.violation("action-receives-wrong-children", {"what": "an action written with `<>` did not receive the values of its production's symbols left to right",
                                                                      "grammar": u["g"].name, "grammar_text": u["g"].render(ascent=(u["variant"] == "a")), "tokens": w,
                                                                      "value": got, "expected": exp, "back_end": "recursive ascent" if u["variant"] == "a" else "table-driven"})
    oks = [d for d in dec if d["kind"] == "ok"]
    distinct = len({(x[0], tuple(i[1] for i in x[1])) for x, d in zip(cases, dec) if d["kind"] == "ok" and len(d["acts"]) >= 2})
    cov = {"obligations": nobl + cobl + len(cases) + ncomp, "discharged": ndis + cdis + len(cases) - nbad + ncomp - nbadc,
           "checker_cmd": "make -C coq; coqc Props/C02.v; coqc .cache/cases/c02cert/*.v; coqc .cache/cases/c02/*.v",
           "trusted_base": vlib.TRUSTED_COMMON + ["tools/lrtab.py", "harness/src/bin/drv.rs (actions build the tree and log themselves)"],
           "theorems": names, "certificates": {"checked": cobl, "valid": cdis},
           "evaluations": len(cases), "distinct_nontrivial": distinct,
           "rule": "accepted inputs of corpus + random grammars; non-trivial = accepted with at least two user actions, distinct by (table, terminal string)",
           "distribution": {"accepted": len(oks), "max_actions": max([len(d["acts"]) for d in oks] + [0]), "tables": len(c.ok)},
           "samples": [dict(lrcheck.case_desc(c, x), implementation=d) for x, d in list(zip(cases, dec))[:2]]}
    for s in cov["samples"]:
        s.pop("grammar_text", None)
    vlib.write_evidence(PROP, tier, "proof", cov, time.time() - t0, violations=len(rep.viol),
                        assumptions=["user action code is abstracted: an action's value is the tree node it builds from its children; default actions, <> selections and tuple bindings (normalize/lower) are covered by the compiled-parser tier only",
                                     "recursive-ascent back end: compiled-parser tier only"])
    return rep.finish()


def replay(path):
    import json
    print(json.dumps(json.load(open(path)), indent=1)[:3000]); return run("quick")
