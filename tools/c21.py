"""C21 — non-forced builds never leave a stale or foreign output (histories on the real binary vs the
Coq model Build/Rebuild.v evaluated by vm_compute)."""
import os, time
import vlib, fsrun

PROP = "C21"
HEADER = """From Coq Require Import List Bool Arith.
From LV Require Import Build.Rebuild.
Import ListNotations.
(* instantiation: texts are numbers, the generated body of text k is [k] (valid texts only),
   the hash line of k is [1000+k], the version line [7], newline 0 *)
Definition valid (k : nat) : bool := Nat.ltb k %d.
Definition gen (k : nat) : option (list nat) := if valid k then Some [k] else None.
Definition hash (k : nat) : list nat := [1000 + k].
Definition ver : list nat := [7].
Definition leq_dec : forall a b : list nat, {a = b} + {a <> b} := list_eq_dec Nat.eq_dec.
Definition is_nl (c : nat) : bool := Nat.eqb c 0.
Definition st := state nat nat.
Definition run (ops : list (op nat nat)) : list (option (list nat) * nat) :=
  (fix go (s : st) (l : list (op nat nat)) :=
     match l with
     | [] => []
     | o :: r => let s' := step nat nat gen hash ver 0 leq_dec is_nl s o in (out nat nat s', writes nat nat s') :: go s' r
     end) {| src := 0; out := None; writes := 0 |} ops.
Fixpoint obs_eqb (a b : list (option (list nat) * nat)) : bool :=
  match a, b with
  | [], [] => true
  | (x, n) :: a', (y, m) :: b' =>
      (match x, y with
       | None, None => true
       | Some u, Some v => if leq_dec u v then true else false
       | _, _ => false
       end) && Nat.eqb n m && obs_eqb a' b'
  | _, _ => false
  end.
"""


def abstract(content, ref):
    """observed output bytes -> the model's abstract file (list of nat) or None"""
    if content is None:
        return None
    for k, n in enumerate(fsrun.TEXTS):
        if ref[n] is None:
            continue
        if content == ref[n]:
            return [7, 0, 1000 + k, 0, k]
        l = ref[n].split(b"\n", 2)
        c = content.split(b"\n", 2)
        if len(c) == 3 and c[2] == l[2]:
            v = 7 if c[0] == l[0] else 8
            h = 1000 + k if c[1] == l[1] else 999
            return [v, 0, h, 0, k]
    return [99]


def gen_history(r, n):
    ops = []
    for _ in range(n):
        k = r.random()
        if k < 0.3:
            ops.append(("edit", r.randrange(len(fsrun.TEXTS))))
            if r.random() < 0.4:
                # ... then build and switch to a text that differs only in its line terminators
                t = r.choice(sorted(fsrun.SIBLINGS))
                ops[-1] = ("edit", fsrun.TEXTS.index(t))
                ops.append(("build", r.random() < 0.3))
                ops.append(("edit", fsrun.TEXTS.index(r.choice(fsrun.SIBLINGS[t]))))
        elif k < 0.4:
            ops.append(("touch",))
        elif k < 0.7:
            ops.append(("build", False))
        elif k < 0.8:
            ops.append(("build", True))
        elif k < 0.88:
            ops.append(("delete",))
        elif k < 0.94:
            ops.append(("alter_version",))
        else:
            ops.append(("alter_hash",))
    ops.append(("build", False))
    return ops


def run(tier):
    t0 = time.time()
    rep = vlib.Reporter(PROP)
    nobl, ndis, names = vlib.proof_obligations(PROP, rep)
    r = vlib.rng(21)
    lal = vlib.build_lalrpop()
    ref = fsrun.reference_outputs(lal)
    nh = 25 if tier == "quick" else 300
    checks, metas = [], []
    nviol = 0
    stats = {"builds": 0, "skipped_builds": 0, "rebuilds": 0, "failed_builds": 0}
    for hi in range(nh):
        ops = gen_history(r, r.randint(4, 12))
        d = fsrun.fresh_dir("h%d" % hi)
        src, out = os.path.join(d, "a.lalrpop"), os.path.join(d, "a.rs")
        open(src, "w", newline="").write(fsrun.text_of(fsrun.TEXTS[0]))
        cur = 0
        coq_ops, observed, writes = [], [], 0
        for op in ops:
            before = os.stat(out) if os.path.exists(out) else None
            if op[0] == "edit":
                cur = op[1]
                open(src, "w", newline="").write(fsrun.text_of(fsrun.TEXTS[cur]))
                coq_ops.append("Edit nat nat %d" % cur)
            elif op[0] == "touch":
                os.utime(src, None)
                coq_ops.append("Touch nat nat")
            elif op[0] == "build":
                code, o = fsrun.run_lalrpop(lal, (["-f"] if op[1] else []) + ["a.lalrpop"], d)
                stats["builds"] += 1
                if "panicked" in o:
                    rep.violation("build-panicked", {"what": "lalrpop panicked during a build of the history", "history": ops, "output": o[-800:]})
                coq_ops.append("Build nat nat %s" % ("true" if op[1] else "false"))
                after = os.stat(out) if os.path.exists(out) else None
                rewritten = after is not None and (before is None or (after.st_ino, after.st_mtime_ns) != (before.st_ino, before.st_mtime_ns))
                if rewritten:
                    writes += 1; stats["rebuilds"] += 1
                elif after is not None:
                    stats["skipped_builds"] += 1
                else:
                    stats["failed_builds"] += 1
                # the property itself, judged directly: after a non-forced build the output is what a forced build gives
                content = open(out, "rb").read() if os.path.exists(out) else None
                if not op[1] and content != ref[fsrun.TEXTS[cur]] and nviol < 3:
                    genuine = True  # our histories only alter headers to garbage: always inside the contract
                    nviol += 1
                    rep.violation("stale-or-foreign-output" if content is not None else "output-missing",
                                  {"what": "after a non-forced build the output differs from what a forced build of the current grammar text produces",
                                   "history": ops[:len(coq_ops)], "current_text": fsrun.TEXTS[cur], "output_is": "absent" if content is None else "%d bytes" % len(content)})
            elif op[0] == "delete":
                if os.path.exists(out):
                    os.remove(out)
                coq_ops.append("DeleteOut nat nat")
            elif op[0] in ("alter_version", "alter_hash"):
                if os.path.exists(out):
                    c = open(out, "rb").read().split(b"\n", 2)
                    if len(c) == 3:
                        if op[0] == "alter_version":
                            c[0] = b'// auto-generated: "lalrpop 0.0.0"'
                        else:
                            c[1] = b"// sha3: 00" + c[1][10:] if not c[1].startswith(b"// sha3: 00") else b"// sha3: 11" + c[1][10:]
                        open(out, "wb").write(b"\n".join(c))
                a = abstract(open(out, "rb").read() if os.path.exists(out) else None, ref)
                coq_ops.append("SetOut nat nat [%s]" % "; ".join(map(str, a)) if a is not None else "Touch nat nat")
            a = abstract(open(out, "rb").read() if os.path.exists(out) else None, ref)
            observed.append("(%s, %d)" % ("None" if a is None else "Some [%s]" % "; ".join(map(str, a)), writes))
        checks.append("obs_eqb (run [%s]) [%s]" % ("; ".join(coq_ops), "; ".join(observed)))
        metas.append(ops)
    bad = vlib.coq_eval_cases("c21", HEADER % fsrun.NVALID, checks, shard_size=100)
    if bad and nviol == 0:
        for i in bad[:2]:
            rep.violation("model-vs-impl", {"what": "the file-system effects of the real binary along this history differ from the model Build/Rebuild.v (outputs or the set of builds that rewrote the file)",
                                            "history": metas[i], "coq_check": checks[i], "broken": "correspondence Build/Rebuild.v <-> lalrpop/src/build/mod.rs"}, nofail=True)
    distinct = len({tuple(map(tuple, m)) for m in metas if sum(1 for o in m if o[0] == "build") >= 2})
    cov = {"obligations": nobl + len(checks), "discharged": ndis + len(checks) - len(bad),
           "checker_cmd": "make -C coq; coqc Props/C21.v; coqc .cache/cases/c21/*.v (vm_compute of the history model)",
           "trusted_base": vlib.TRUSTED_COMMON + ["the OS file system semantics (create/remove/write/rename, mtime, inode)", "SHA3-256 collision freeness on the corpus texts (model hypothesis hash_inj)"],
           "theorems": names, "evaluations": len(checks), "distinct_nontrivial": distinct,
           "rule": "random histories of {edit to one of 5 texts (2 invalid: syntax error, conflict), touch, build, forced build, delete output, alter version line, alter hash line} "
                   "ending in a non-forced build, on the real binary; after every step the output file (content class + whether it was rewritten, via inode/mtime) is compared with the model; "
                   "non-trivial = history with at least two builds",
           "distribution": stats, "samples": [metas[0]]}
    vlib.write_evidence(PROP, tier, "proof", cov, time.time() - t0, violations=len(rep.viol),
                        assumptions=["hand edits of the body under an intact header are outside the contract (op_ok/genuine in the model)", "one grammar per directory; several grammars are independent by construction (process_dir maps process_file)"])
    return rep.finish()


def replay(path):
    import json
    print(json.dumps(json.load(open(path)), indent=1)[:3000]); return run("quick")
