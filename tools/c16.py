"""C16 — error recovery yields a well-formed tree and accounts for every token."""
import time
import vlib, gram, lrengine, lrcheck

PROP = "C16"


def err_nodes(tr):
    if "err" in tr:
        return [tr]
    return [x for k in tr.get("kids", []) for x in err_nodes(k)]


def make_judge(c):
    def judge(case, d):
        tid, items, orc, meta = case
        e = c.ok[int(tid[1:])]
        g, t = e["g"], e["t"]
        if d["kind"] != "ok":
            return None
        tr = d["tree"]
        errcol = t["nterm"] - 1

        def wf(n, want=None):
            if "leaf" in n:
                return want is None or want == ("T", n["leaf"]["idx"])
            if "err" in n:
                return want is None or want == ("T", errcol)
            nt, rhs = t["prods"][n["p"]]
            if want is not None and want != ("N", nt):
                return False
            return len(rhs) == len(n["kids"]) and all(wf(k, s) for k, s in zip(n["kids"], rhs))
        if not wf(tr):
            return ("tree-not-a-derivation", "the returned tree is not a derivation of the grammar (reading error nodes as `!`)")
        toks = [{"idx": it[1], "id": it[2], "lo": it[3], "hi": it[4]} for it in items]
        lv = lrcheck.leaves(tr)
        ids = [x["id"] for x in lv]
        if any(x not in toks for x in lv) or ids != sorted(ids) or len(set(ids)) != len(ids):
            return ("leaves-not-subsequence", "the tree's tokens are not a subsequence of the input in order")
        ens = err_nodes(tr)
        for a, b in zip(ens, ens[1:]):
            if not (a["lo"] <= a["hi"] <= b["lo"] <= b["hi"]):
                return ("error-spans-not-ordered", "error node spans %r and %r are not ordered and disjoint" % ((a["lo"], a["hi"]), (b["lo"], b["hi"])))
        for n in ens:
            dids = [x["id"] for x in n["dropped"]]
            if any(x not in toks for x in n["dropped"]) or dids != sorted(dids) or len(set(dids)) != len(dids):
                return ("dropped-not-in-order", "a dropped_tokens list does not hold input tokens in order")
        kept = set(ids)
        for tk in toks:
            if tk["id"] in kept:
                continue
            inside = [n for n in ens if n["lo"] <= tk["lo"] and tk["hi"] <= n["hi"]]
            if len(inside) != 1:
                return ("token-unaccounted", "input token %r is not in the tree and lies inside %d error-node spans %r"
                        % (tk, len(inside), [(n["lo"], n["hi"]) for n in ens]))
        w = lrcheck.words_of(items, t)
        if None not in w and g.accepts(e["start"], w) and ens:
            return ("recovery-on-sentence", "the input is derivable without `!` but the result contains error nodes")
        return None
    return judge


def run(tier):
    t0 = time.time()
    rep = vlib.Reporter(PROP)
    nobl, ndis, names = vlib.proof_obligations(PROP, rep)
    r = vlib.rng(16)
    gs = [g for g in gram.corpus() if g.recovery]
    nrand = 30 if tier == "quick" else 300
    gs += [gram.random_grammar(r, i, recovery=True, fallible=False) for i in range(nrand)]
    gs = [g for g in gs if g.recovery]
    c = lrcheck.prepare(gs, modes=("lane", "lalr") if tier == "quick" else ("lane", "lr1", "lalr"))
    cobl, cdis, failing = lrcheck.certify(PROP, rep, c, parts=("shape", "complete", "exact", "start_eof_only", "terminates"), name="c16cert")
    per = 24 if tier == "quick" else 80
    cases = []
    for e in c.ok:
        g = e["g"]
        if e["start"] not in g.min_height():
            continue
        for n in range(per):
            w = g.random_sentence(r, e["start"], depth=r.randint(1, 6))
            for _ in range(n % 4):
                w = lrengine.mutate(g, w, r)
            if n % 9 == 8:
                w = list(w); w.insert(r.randint(0, len(w)), None)
            if n % 11 == 10:
                w = [r.choice(g.terms) for _ in range(r.randint(1, 7))]
            # tokens of width >= 1 so that span containment is unambiguous
            items, pos = [], r.randint(0, 2)
            tn = {x: i for i, x in enumerate(e["t"]["tnames"])}
            for i, wd in enumerate(w):
                hi = pos + r.randint(1, 3)
                items.append(("k", tn['"%s"' % wd] if wd is not None else -1, i + 1, pos, hi))
                pos = hi + r.randint(0, 2)
            cases.append((e["tid"], items, [], {}))
    # exhaustive short inputs on the corpus grammars (pure insertions, recoveries right above the start
    # state, errors in states that still have reductions on `!` pending ...); the first token starts after
    # position 0 so that the default location is distinguishable from every real one
    nexh = 0
    for e in c.ok:
        g = e["g"]
        if g.name.startswith("rnd") or e["start"] not in g.min_height():
            continue
        tn = {x: i for i, x in enumerate(e["t"]["tnames"])}
        for w in lrcheck.short_strings(g, 3 if tier == "quick" else 4, cap=(200 if tier == "quick" else 800)):
            items, pos = [], 1 + (len(w) % 2)
            for i, wd in enumerate(w):
                hi = pos + 1 + (i % 2)
                items.append(("k", tn['"%s"' % wd], i + 1, pos, hi))
                pos = hi + ((i + len(w)) % 2)
            cases.append((e["tid"], items, [], {})); nexh += 1
    dec, nbad = lrcheck.correspond(PROP, rep, c, cases, make_judge(c), "c16")
    lrcheck.report_cert_failures(PROP, rep, c, failing, bool(rep.viol), make_judge(c), r)
    rec = [(x, d) for x, d in zip(cases, dec) if d["kind"] == "ok" and err_nodes(d["tree"])]
    multi = sum(1 for x, d in rec if len(err_nodes(d["tree"])) > 1)
    dropped2 = sum(1 for x, d in rec if any(len(n["dropped"]) >= 2 for n in err_nodes(d["tree"])))
    popped = sum(1 for x, d in rec if any(n["lo"] < min([k["lo"] for k in n["dropped"]] + [n["hi"]]) for n in err_nodes(d["tree"])))
    distinct = len({(x[0], tuple(i[1] for i in x[1])) for x, d in rec})
    cov = {"obligations": nobl + cobl + len(cases), "discharged": ndis + cdis + len(cases) - nbad,
           "checker_cmd": "make -C coq; coqc Props/C16.v; coqc .cache/cases/c16cert/*.v; coqc .cache/cases/c16/*.v",
           "trusted_base": vlib.TRUSTED_COMMON + ["tools/lrtab.py", "harness/src/bin/drv.rs", "tools/gram.py Earley oracle (judge only)"],
           "theorems": names, "certificates": {"checked": cobl, "valid": cdis},
           "evaluations": len(cases), "distinct_nontrivial": distinct,
           "rule": "grammars with `!` at several depths (corpus + random) x {lane, lalr[, lr1]}; sentences with 0-3 insert/delete/substitute/swap edits, unknown tokens, "
                   "random strings; tokens carry gapped spans of width >= 1; plus ALL token strings up to length 3 (quick) / 4 (thorough) on the corpus grammars; non-trivial = Ok result containing at least one error node",
           "distribution": {"tables": len(c.ok), "exhaustive_short_inputs": nexh, "recovered": len(rec), "several_error_nodes": multi, "dropped_two_or_more": dropped2,
                            "with_popped_symbols": popped, "results": {k: sum(1 for d in dec if d["kind"] == k) for k in ("ok", "err", "panic", "budget")}},
           "samples": [dict(lrcheck.case_desc(c, x), implementation=d) for x, d in rec[:2]]}
    for s in cov["samples"]:
        s.pop("grammar_text", None)
    vlib.write_evidence(PROP, tier, "proof", cov, time.time() - t0, violations=len(rep.viol),
                        assumptions=["recursive-ascent back end does not support `!`"])
    return rep.finish()


def replay(path):
    import json
    print(json.dumps(json.load(open(path)), indent=1)[:3000]); return run("quick")
