"""Common machinery for the /verif checks: builds, Coq evaluation, evidence, violations."""
import hashlib, json, os, random, re, shutil, subprocess, sys, time

ROOT = os.path.dirname(os.path.dirname(os.path.abspath(__file__)))
REPO = os.environ.get("VERIF_REPO", "/repo")
CACHE = os.path.join(ROOT, ".cache")
COQ = os.path.join(ROOT, "coq")
# a scratch tree given through VERIF_REPO (seeded-change trials) gets its own build directory
TARGET = os.path.join(CACHE, "target" if REPO == "/repo" else "target-" + hashlib.sha1(REPO.encode()).hexdigest()[:8])
GUARD = "lalrpop_verif"
NPROC = os.cpu_count() or 8

TRUSTED_COMMON = [
    "Coq 8.16.1 kernel incl. vm_compute (no native_compute)",
    "tools/*.py check driver and case generators (Python 3)",
    "harness crate /verif/harness (path-depends on /repo/lalrpop-util, /repo/lalrpop)",
]


class Violation(Exception):
    def __init__(self, prop, replay, nofail=False, msg=""):
        self.prop, self.replay, self.nofail, self.msg = prop, replay, nofail, msg


def seed():
    return int(os.environ.get("VERIF_SEED", "1"))


def tier(argv_tier=None):
    return argv_tier or os.environ.get("VERIF_TIER", "quick")


def sh(cmd, cwd=None, env=None, timeout=3600, check=True, input=None, quiet=True):
    e = dict(os.environ)
    if env:
        e.update(env)
    p = subprocess.run(cmd, cwd=cwd, env=e, shell=isinstance(cmd, str), input=input,
                       stdout=subprocess.PIPE, stderr=subprocess.STDOUT, timeout=timeout, text=True,
                       errors="replace")
    if check and p.returncode != 0:
        raise RuntimeError("command failed (%d): %s\n%s" % (p.returncode, cmd, p.stdout[-4000:]))
    return p


def cargo_env():
    return {"CARGO_TARGET_DIR": TARGET, "CARGO_NET_OFFLINE": "true",
            "RUSTFLAGS": "--cfg %s" % GUARD, "CARGO_TERM_COLOR": "never"}


class BuildBroken(Exception):
    pass


def build_lalrpop():
    """Rebuild the lalrpop binary from /repo's current working tree (hooks on)."""
    os.makedirs(CACHE, exist_ok=True)
    p = sh(["cargo", "build", "--offline", "-p", "lalrpop", "--bin", "lalrpop"], cwd=REPO,
           env=cargo_env(), check=False, timeout=3000)
    if p.returncode != 0:
        raise BuildBroken("cargo build of /repo lalrpop failed:\n" + p.stdout[-3000:])
    return os.path.join(TARGET, "debug", "lalrpop")


def build_harness(bin_name):
    """Rebuild a harness binary against /repo's current lalrpop-util."""
    os.makedirs(CACHE, exist_ok=True)
    h = os.path.join(ROOT, "harness")
    lock = os.path.join(h, "Cargo.lock")
    if not os.path.exists(lock):
        shutil.copy(os.path.join(REPO, "Cargo.lock"), lock)
    if REPO != "/repo":
        # a scratch tree given through VERIF_REPO (seeded-change trials): build a private copy of the crate
        # whose path dependencies point at that tree (the committed crate is never touched)
        h2 = os.path.join(CACHE, "harness-" + os.path.basename(TARGET))
        shutil.rmtree(h2, ignore_errors=True)
        os.makedirs(h2)
        shutil.copytree(os.path.join(h, "src"), os.path.join(h2, "src"))
        shutil.copy(lock, os.path.join(h2, "Cargo.lock"))
        open(os.path.join(h2, "Cargo.toml"), "w").write(open(os.path.join(h, "Cargo.toml")).read().replace('"/repo/', '"%s/' % REPO))
        h = h2
    p = sh(["cargo", "build", "--offline", "--bin", bin_name], cwd=h, env=cargo_env(), check=False,
           timeout=3000)
    if p.returncode != 0:
        raise BuildBroken("cargo build of harness bin %s failed:\n%s" % (bin_name, p.stdout[-3000:]))
    return os.path.join(TARGET, "debug", bin_name)


def build_shim():
    """LD_PRELOAD crash injector (harness/shim/crashshim.c) -> path of the shared object"""
    os.makedirs(CACHE, exist_ok=True)
    so = os.path.join(CACHE, "crashshim.so")
    src = os.path.join(ROOT, "harness", "shim", "crashshim.c")
    if not os.path.exists(so) or os.path.getmtime(so) < os.path.getmtime(src):
        p = sh(["gcc", "-shared", "-fPIC", "-O1", "-o", so, src, "-ldl"], check=False, timeout=300)
        if p.returncode != 0:
            raise BuildBroken("cannot build the crash shim:\n" + p.stdout[-2000:])
    return so


# ---------------------------------------------------------------- Coq

FORBIDDEN = re.compile(r"\b(Admitted|admit|Axiom|Axioms|Parameter|Parameters|Conjecture|Conjectures|"
                       r"Admit Obligations|bypass_check)\b|Unset Guard|Unset Positivity|Unset Universe|"
                       r"type-in-type|impredicative-set")


def strip_coq_comments(s):
    out, depth, i = [], 0, 0
    while i < len(s):
        if s.startswith("(*", i):
            depth += 1; i += 2
        elif s.startswith("*)", i) and depth:
            depth -= 1; i += 2
        else:
            if not depth:
                out.append(s[i])
            i += 1
    return "".join(out)


def coq_gate():
    """grep gate over the whole development: no Admitted/Axiom/... outside comments.
    [Variable]/[Hypothesis] are only allowed inside a Section (checked textually)."""
    bad = []
    for d, _, fs in os.walk(os.path.join(COQ, "theories")):
        for f in fs:
            if not f.endswith(".v"):
                continue
            p = os.path.join(d, f)
            txt = strip_coq_comments(open(p).read())
            for m in FORBIDDEN.finditer(txt):
                bad.append("%s: %s" % (os.path.relpath(p, ROOT), m.group(0)))
            depth = 0
            for line in txt.splitlines():
                t = line.strip()
                if re.match(r"(Section|Module Type)\b", t):
                    depth += 1
                elif re.match(r"End\b", t) and depth:
                    depth -= 1
                elif re.match(r"(Variable|Variables|Hypothesis|Hypotheses|Context)\b", t) and depth == 0:
                    bad.append("%s: %s outside a Section" % (os.path.relpath(p, ROOT), t[:40]))
    proj = open(os.path.join(COQ, "_CoqProject")).read()
    for m in FORBIDDEN.finditer(proj):
        bad.append("_CoqProject: " + m.group(0))
    return bad


def coq_make(targets=None, timeout=3000):
    """Full .vo build of the base development (or of the given .vo targets) through the Makefile."""
    if not os.path.exists(os.path.join(COQ, "Makefile")) or \
            os.path.getmtime(os.path.join(COQ, "Makefile")) < os.path.getmtime(os.path.join(COQ, "_CoqProject")):
        sh(["coq_makefile", "-f", "_CoqProject", "-o", "Makefile"], cwd=COQ)
    cmd = ["make", "-j%d" % NPROC] + (targets or [])
    p = sh(cmd, cwd=COQ, check=False, timeout=timeout)
    return p.returncode == 0, p.stdout


COQ_FLAGS = ["-Q", os.path.join(COQ, "theories"), "LV", "-w",
             "-notation-overridden,-deprecated-hint-without-locality,-deprecated-syntactic-definition"]


def coq_props(prop_id, timeout=1200):
    """Re-check theories/Props/<id>.v with coqc (its dependencies are built by coq_make) and return
    the list of (theorem, assumptions-text).  'Closed under the global context' = no axioms."""
    ok, out = coq_make()
    if not ok:
        return None, out
    src = os.path.join(COQ, "theories", "Props", prop_id + ".v")
    tmpd = os.path.join(CACHE, "props")
    os.makedirs(tmpd, exist_ok=True)
    dst = os.path.join(tmpd, prop_id + "_chk.v")
    shutil.copy(src, dst)
    p = sh(["coqc", "-noglob"] + COQ_FLAGS + [dst], check=False, timeout=timeout)
    if p.returncode != 0:
        return None, p.stdout
    txt = strip_coq_comments(open(src).read())
    names = re.findall(r"Print Assumptions\s+([A-Za-z0-9_']+)\s*\.", txt)
    # split the output into one block per Print Assumptions
    blocks = re.split(r"(?=Closed under the global context|Axioms:)", p.stdout)
    blocks = [b.strip() for b in blocks if b.strip().startswith(("Closed", "Axioms:"))]
    if len(blocks) != len(names):
        return None, "Print Assumptions output does not match theorem list:\n" + p.stdout
    return list(zip(names, blocks)), p.stdout


ALLOWED_AXIOMS = set()  # nothing: every property theorem must be closed under the global context


def check_assumptions(pairs):
    bad = []
    for name, blk in pairs:
        if blk.startswith("Closed under the global context"):
            continue
        axs = re.findall(r"^([A-Za-z0-9_.']+)\s*:", blk, re.M)
        extra = [a for a in axs if a not in ALLOWED_AXIOMS]
        if extra or not axs:
            bad.append((name, blk))
    return bad


def coq_string(s):
    """Coq string term for a python str (bytes of its UTF-8 encoding)."""
    b = s.encode("utf-8")
    if all(32 <= c < 127 for c in b):
        return '"' + s.replace('"', '""') + '"'
    parts, cur = [], ""
    for c in b:
        if 32 <= c < 127:
            cur += chr(c)
        else:
            if cur:
                parts.append('"' + cur.replace('"', '""') + '"'); cur = ""
            parts.append("(bch %d)" % c)
    if cur:
        parts.append('"' + cur.replace('"', '""') + '"')
    t = parts[-1]
    for q in reversed(parts[:-1]):
        t = "(String.append %s %s)" % (q, t)
    return t


def coq_list(items):
    return "[" + "; ".join(items) + "]"


def coq_eval_cases(name, header, checks, shard_size=400, timeout=1800):
    """Evaluate boolean Gallina terms inside Coq (vm_compute).  [checks] is a list of Gallina terms of
    type bool; returns the list of indices whose term did not evaluate to true.  Sharded over coqc
    processes.  A shard that fails to compile raises RuntimeError (model/case generator mismatch)."""
    d = os.path.join(CACHE, "cases", name)
    shutil.rmtree(d, ignore_errors=True)
    os.makedirs(d)
    shards = [checks[i:i + shard_size] for i in range(0, len(checks), shard_size)] or [[]]
    procs = []
    for k, sh_ in enumerate(shards):
        f = os.path.join(d, "cases%d.v" % k)
        with open(f, "w") as w:
            w.write(header + "\n")
            w.write("From Coq Require Import List NArith.\nImport ListNotations.\n")
            w.write("Definition __bad (l : list bool) : list N :=\n"
                    "  (fix go (i : N) (l : list bool) : list N := match l with [] => [] | b :: r =>\n"
                    "     if b then go (N.succ i) r else i :: go (N.succ i) r end) 0%N l.\n")
            for j, c in enumerate(sh_):
                w.write("Definition c%d : bool := %s.\n" % (j, c))
            w.write("Definition __all : list bool := [%s].\n" % "; ".join("c%d" % j for j in range(len(sh_))))
            w.write("Eval vm_compute in (__bad __all).\n")
        procs.append((k, f, subprocess.Popen(["coqc", "-noglob"] + COQ_FLAGS + ["-Q", d, "Cases%d" % k, f],
                                             stdout=subprocess.PIPE, stderr=subprocess.STDOUT, text=True)))
        # keep at most NPROC coqc at a time
        while sum(1 for _, _, p in procs if p.poll() is None) >= NPROC:
            time.sleep(0.05)
    bad = []
    for k, f, p in procs:
        out, _ = p.communicate(timeout=timeout)
        if p.returncode != 0:
            raise RuntimeError("coqc failed on %s:\n%s" % (f, out[-3000:]))
        m = re.search(r"=\s*(\[.*?\])\s*:\s*list N", out, re.S)
        if not m:
            raise RuntimeError("cannot read coqc output for %s:\n%s" % (f, out[-2000:]))
        for x in re.findall(r"\d+", m.group(1)):
            bad.append(k * shard_size + int(x))
    return sorted(bad)


def coq_eval_value(name, header, term, timeout=2400):
    """vm_compute one term and return coqc's printed text after '='."""
    d = os.path.join(CACHE, "cases", name)
    shutil.rmtree(d, ignore_errors=True)
    os.makedirs(d)
    f = os.path.join(d, "val.v")
    with open(f, "w") as w:
        w.write(header + "\nEval vm_compute in (%s).\n" % term)
    p = sh(["coqc", "-noglob"] + COQ_FLAGS + [f], check=False, timeout=timeout)
    if p.returncode != 0:
        raise RuntimeError("coqc failed on %s:\n%s" % (f, p.stdout[-3000:]))
    m = re.search(r"=\s*(.*)\n\s*:\s", p.stdout, re.S)
    return m.group(1).strip() if m else p.stdout


# ---------------------------------------------------------------- evidence / findings

def write_evidence(prop, tier_, level, coverage, wall, violations=0, assumptions=None):
    os.makedirs(os.path.join(ROOT, "evidence"), exist_ok=True)
    ev = {"property_id": prop, "tier": tier_, "seed": seed(), "level": level, "coverage": coverage,
          "assumptions": assumptions or [], "wall_s": round(wall, 2), "violations": violations}
    with open(os.path.join(ROOT, "evidence", prop + ".json"), "w") as w:
        json.dump(ev, w, indent=1, sort_keys=True)
        w.write("\n")


def write_replay(prop, obj):
    d = os.path.join(ROOT, "replay")
    os.makedirs(d, exist_ok=True)
    h = hashlib.sha1(json.dumps(obj, sort_keys=True, default=str).encode()).hexdigest()[:10]
    p = os.path.join(d, "%s-%s.json" % (prop, h))
    with open(p, "w") as w:
        json.dump(obj, w, indent=1, default=str)
        w.write("\n")
    return p


def known_findings():
    """known_findings.txt: lines 'known: property=<id> key=<key> <text>' / 'fixed: property=<id> <commit> <text>'."""
    out = []
    p = os.path.join(ROOT, "known_findings.txt")
    if os.path.exists(p):
        for line in open(p):
            m = re.match(r"known:\s+property=(\S+)\s+key=(\S+)\s+(.*)", line.strip())
            if m:
                out.append((m.group(1), m.group(2), m.group(3)))
    return out


class Reporter:
    """Collects violations of one property during a run; separates known findings by key."""

    def __init__(self, prop):
        self.prop = prop
        self.known = {k: t for (p, k, t) in known_findings() if p == prop}
        self.known_hit = {}
        self.viol = []

    def violation(self, key, replay_obj, nofail=False):
        """key: canonical key of the failing input class (matched against known findings)."""
        if key in self.known:
            self.known_hit.setdefault(key, replay_obj)
            return
        replay_obj = dict(replay_obj)
        replay_obj.setdefault("property", self.prop)
        replay_obj.setdefault("key", key)
        if nofail:
            replay_obj.setdefault("no_failing_input_found", True)
        self.viol.append((key, write_replay(self.prop, replay_obj), nofail))

    def finish(self):
        for k in sorted(self.known_hit):
            print("KNOWN-FINDING: property=%s %s [%s]" % (self.prop, self.known[k], k))
        seen = set()
        for key, path, nofail in self.viol:
            if path in seen:
                continue
            seen.add(path)
            print("VIOLATION property=%s replay=%s%s" % (self.prop, path, " no-failing-input-found" if nofail else ""))
        sys.stdout.flush()
        return 1 if self.viol else 0


def proof_obligations(prop, rep, extra_trusted=None):
    """Gate + Props/<id>.v re-check + assumption allow-list.  Returns (n_obligations, n_discharged, names)."""
    bad = coq_gate()
    if bad:
        rep.violation("gate", {"what": "forbidden vernacular in the development", "where": bad}, nofail=True)
        return 1, 0, []
    pairs, out = coq_props(prop)
    if pairs is None:
        rep.violation("proof-broken", {"what": "the Coq development or Props/%s.v no longer checks" % prop,
                                       "coq_output": out[-3000:]}, nofail=True)
        return 1, 0, []
    badax = check_assumptions(pairs)
    for name, blk in badax:
        rep.violation("axioms:" + name, {"what": "theorem depends on axioms outside the allow-list",
                                         "theorem": name, "assumptions": blk}, nofail=True)
    return len(pairs), len(pairs) - len(badax), [n for n, _ in pairs]


def norm_prefix(txt):
    """lalrpop prefixes its own names with a run of underscores that does not occur in the grammar text
    (`__`, or longer when the grammar itself contains `__`).  The readers of generated code are written
    for `__`: map a longer prefix back to it (only at identifier starts; the prefix cannot occur in user
    text by construction)."""
    m = re.search(r"(?<![A-Za-z0-9_])(_{2,})lalrpop_util(?![A-Za-z0-9_])", txt)
    if not m or m.group(1) == "__":
        return txt
    return re.sub(r"(?<![A-Za-z0-9_])" + m.group(1) + r"(?=[A-Za-z0-9])", "__", txt)


def rng(extra=0):
    return random.Random(seed() * 1000003 + extra)
