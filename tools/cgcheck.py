"""Shared helpers of the compiled-parser tier (C06, C07, C19, ...)."""
import vlib, gram, lrengine, lrtab, cgb


def build_corpus(rep, lalrpop, gs, variants=("t", "a"), mode="lane", probes=0):
    """-> (binary, units) ; units[i] = dict(name, g, variant, rs, tabs {start: table}|None)"""
    units = []
    for gi, g in enumerate(gs):
        for v in variants:
            if v == "a" and g.recovery:
                continue
            st, rs, out = lrengine.generate(lalrpop, g, mode, ascent=(v == "a"), probes=(probes + gi if probes else 0))
            if st != "ok":
                continue
            u = {"name": "m%d%s" % (gi, v), "g": g, "variant": v, "rs": rs, "parsers": list(g.pubs), "gi": gi}
            if v == "t":
                try:
                    u["tabs"] = lrtab.parse_rs(rs)
                except lrtab.TranslateError as e:
                    raise vlib.BuildBroken("translator cannot read the generated parser any more: %s" % e)
            units.append(u)
    ok, out, binary = cgb.build(units)
    return ok, out, binary, units


def prod_labels(g, t):
    """reduce index -> "NT#alt" (None for the start production and for @L/@R)"""
    out = []
    for p, (nt, rhs) in enumerate(t["prods"]):
        name = t["ntnames"].get(nt)
        lab = None
        if name in g.rules:
            names = []
            for k, x in rhs:
                if k == "T":
                    n = t["tnames"][x]
                    names.append("!" if n == "error" else n.strip('"'))
                else:
                    names.append(t["ntnames"].get(x))
            for i, a in enumerate(g.rules[name]):
                if a == names:
                    lab = "%s#%d" % (name, i)
        out.append(lab)
    return out


def drv_to_labeled(d, g, t):
    """convert a drv outcome (production indices) into the compiled parsers' shape (labels, no start node)"""
    labs = prod_labels(g, t)
    spans = iter(d.get("spans", []))

    def conv(n):
        if "leaf" in n:
            return {"leaf": n["leaf"]}
        if "err" in n:
            e = dict(n["err"])
            return {"err": conv_err(e), "dropped": n["dropped"], "lo": n["lo"], "hi": n["hi"]}
        return {"label": labs[n["p"]], "kids": [conv(k) for k in n["kids"]]}

    def conv_err(e):
        e = dict(e)
        if "expected" in e:
            e["expected"] = [t["tnames"][x] for x in e["expected"]]
        return e
    out = {"kind": d["kind"], "pulled": d["pulled"]}
    if d["kind"] == "ok":
        tr = d["tree"]
        out["tree"] = conv(tr["kids"][0]) if tr.get("p") == t["start"] and len(tr["kids"]) == 1 else conv(tr)
    elif d["kind"] == "err":
        out["err"] = conv_err(d["err"])
    out["acts"] = [labs[p] for p in d["acts"]]
    out["spans"] = [(labs[p], str(lo), str(hi)) for (p, lo, hi) in d.get("spans", [])]
    return out


def strip_spans(n):
    if "label" in n:
        return {"label": n["label"], "kids": [strip_spans(k) for k in n["kids"]]}
    return n


def norm_cgb(d):
    out = {"kind": d["kind"], "pulled": d["pulled"]}
    if d["kind"] == "ok":
        out["tree"] = strip_spans(d["tree"])
    elif d["kind"] == "err":
        e = dict(d["err"]); e.pop("span", None)
        out["err"] = e
    out["acts"] = d["acts"]
    out["spans"] = [tuple(x) for x in d["spans"]]
    return out
