"""C04 — syntax errors are reported at the first token that cannot continue the input."""
import time
import vlib, gram, lrengine, lrcheck

PROP = "C04"


def make_judge(c):
    def judge(case, d):
        tid, items, orc, meta = case
        e = c.ok[int(tid[1:])]
        g = e["g"]
        if d["kind"] in ("panic", "budget"):
            return None
        w = lrcheck.words_of(items, e["t"])
        if d["kind"] == "err" and d["err"]["e"] == "ExtraToken":
            return ("extra-token", "parse returned ExtraToken")
        # unknown tokens (token_to_index = None) can never continue any prefix
        unk = [i for i, x in enumerate(w) if x is None]
        wk = w[:unk[0]] if unk else w
        k = g.viable_len(e["start"], wk)           # longest viable prefix of the known part
        if k < len(wk) or unk:
            bad = k                                  # index of the first token that cannot continue
            if d["kind"] != "err" or d["err"]["e"] != "UnrecognizedToken":
                return ("wrong-error-kind", "input has a non-viable prefix ending at token %d but the result is %s" % (bad, d["kind"] + ":" + d.get("err", {}).get("e", "")))
            it = items[bad]
            tok = d["err"]["token"]
            if (tok["id"], tok["lo"], tok["hi"], tok["idx"]) != (it[2], it[3], it[4], it[1]):
                return ("wrong-error-token", "the error should carry token %d %r with its exact span, got %r" % (bad, it, tok))
            if d["pulled"] != bad + 1:
                return ("read-beyond-error", "the parser pulled %d tokens, the offending token is number %d" % (d["pulled"], bad + 1))
        elif not g.accepts(e["start"], w):
            if d["kind"] != "err" or d["err"]["e"] != "UnrecognizedEof":
                return ("wrong-error-kind", "every prefix is viable but the input is not a sentence: expected UnrecognizedEof")
            want = items[-1][4] if items else 0
            if d["err"]["loc"] != want:
                return ("wrong-eof-location", "UnrecognizedEof location %d, expected the end of the last token %d" % (d["err"]["loc"], want))
        return None
    return judge


def gen_cases(c, r, per, unknown=True):
    cases = []
    for e in c.ok:
        g = e["g"]
        if g.recovery or not g.reduced(e["start"]):
            continue
        for n, w in enumerate(lrcheck.gen_words(g, e["start"], r, per)):
            if n % 2 == 1 and g.accepts(e["start"], w):
                w = lrengine.mutate(g, w, r)
            if unknown and n % 7 == 3:
                w = list(w); w.insert(r.randint(0, len(w)), None)
            cases.append((e["tid"], lrengine.tok_items(g, e["t"], w, r), [], {}))
    return cases


def run(tier):
    t0 = time.time()
    rep = vlib.Reporter(PROP)
    nobl, ndis, names = vlib.proof_obligations(PROP, rep)
    r = vlib.rng(4)
    gs = [g for g in gram.corpus() if not g.recovery]
    nrand = 14 if tier == "quick" else 150
    gs += [gram.random_grammar(r, i) for i in range(nrand)]
    gs += [gram.nonlalr_family(r, i) for i in range(4 if tier == "quick" else 40)]
    gs += [gram.nonlalr_matrix(r, i) for i in range(10 if tier == "quick" else 120)]
    c = lrcheck.prepare(gs)
    cobl, cdis, failing = lrcheck.certify(PROP, rep, c, parts=("valid", "productive"), name="c04cert")
    cases = gen_cases(c, r, 12 if tier == "quick" else 40)
    dec, nbad = lrcheck.correspond(PROP, rep, c, cases, make_judge(c), "c04")
    lrcheck.report_cert_failures(PROP, rep, c, failing, bool(rep.viol), make_judge(c), r)
    kinds = {}
    for d in dec:
        k = d["kind"] + ":" + d.get("err", {}).get("e", "")
        kinds[k] = kinds.get(k, 0) + 1
    late = len({(x[0], tuple(i[1] for i in x[1])) for x, d in zip(cases, dec)
                if d["kind"] == "err" and (d["err"]["e"] == "UnrecognizedEof" or (d["err"]["e"] == "UnrecognizedToken" and d["pulled"] > 1))})
    cov = {"obligations": nobl + cobl + len(cases), "discharged": ndis + cdis + len(cases) - nbad,
           "checker_cmd": "make -C coq; coqc Props/C04.v; coqc .cache/cases/c04cert/*.v; coqc .cache/cases/c04/*.v",
           "trusted_base": vlib.TRUSTED_COMMON + ["tools/lrtab.py", "harness/src/bin/drv.rs", "tools/gram.py Earley oracle (judge only)"],
           "theorems": names, "certificates": {"checked": cobl, "valid": cdis},
           "evaluations": len(cases), "distinct_nontrivial": late,
           "rule": "reduced grammars without `!` x {lane, lr1, lalr}; sentences mutated by 1-2 edits, random strings, unknown tokens; "
                   "non-trivial = rejected with the error not at the first token, distinct by (table, terminal string)",
           "distribution": {"results": kinds, "tables": len(c.ok)},
           "samples": [dict(lrcheck.case_desc(c, x), implementation=d) for x, d in list(zip(cases, dec)) if d["kind"] == "err"][:2]}
    for s in cov["samples"]:
        s.pop("grammar_text", None)
    vlib.write_evidence(PROP, tier, "proof", cov, time.time() - t0, violations=len(rep.viol),
                        assumptions=["recursive-ascent back end: compiled-parser tier only"])
    return rep.finish()


def replay(path):
    import json
    print(json.dumps(json.load(open(path)), indent=1)[:3000]); return run("quick")
