"""C12 — precedence/assoc annotations yield the documented tiered grammar.
Theorems (Props/C12.v): the expansion model (Norm/Prec.v: resolve, OneThen/Every substitution forward and
backward, levels) equals the documented tiers position by position.
Tie, on every run, for random annotation layouts:
  1. the model (vm_compute) expands the layout; python prints that tiered grammar B without annotations;
  2. lalrpop built from /repo processes the annotated grammar A and B: same verdict, and the lowered
     productions it prints for A are exactly B's (names, order of symbols);
  3. the real driver runs A's and B's tables on operator/operand sequences: same verdict and same trees,
     and the verdict is the Earley oracle's on B;
  4. (compiled tier) the rustc-compiled parser of A returns, through the user's actions, B's tree with
     the fall-through nodes removed and each node labelled with the source alternative."""
import os, re, time, json
import vlib, gram, lrengine, lrtab, lrcheck, cgcheck, cgb

PROP = "C12"
LEVELS = [0, 1, 2, 3, 5, 8, 13, 40]
ASSOC = {"left": "ALeft", "right": "ARight", "none": "ANone", "all": "AAll"}


class Layout:
    """alts: list of dict(prec int|None, assoc str|None, shape, syms [('E',)|('T',name)|('N',name)])"""

    def __init__(self, name, alts, groups):
        self.name, self.alts, self.groups = name, alts, groups
        self.terms = ["w"]
        for a in alts:
            self.terms += [s[1] for s in a["syms"] if s[0] == "T"]
        for g in groups:
            self.terms += ["lp" + g, "rp" + g]
        self.pubs = ["S"]
        self.recovery = False
        self.rules = {}

    # ids of the non-recursive symbols, per layout
    def other_ids(self):
        ids = {}
        for a in self.alts:
            for s in a["syms"]:
                if s[0] != "E" and s not in ids:
                    ids[s] = len(ids)
        return ids

    def coq(self):
        ids = self.other_ids()
        L = []
        for a in self.alts:
            L.append("{| p_prec := %s; p_assoc := %s; p_syms := [%s] |}" % (
                "Some %d" % a["prec"] if a["prec"] is not None else "None",
                "Some %s" % ASSOC[a["assoc"]] if a["assoc"] else "None",
                "; ".join("PSelf" if s[0] == "E" else "POther %d" % ids[s] for s in a["syms"])))
        return "[%s]" % "; ".join(L)

    def render(self, lalr=False, ascent=False, probes=0):
        L = ["use crate::rt::*;"]
        if lalr:
            L.append("#[LALR]")
        if ascent:
            L.append("#[recursive_ascent]")
        L.append("grammar;")
        L.append("extern {\n    type Location = i64;\n    type Error = u64;\n    enum Tok {")
        for i, t in enumerate(self.terms):
            L.append('        "%s" => Tok(\'%s\', _, _, _),' % (t, chr(ord("a") + i)))
        L.append("    }\n}")

        def alt(label, syms):
            ss, kids = [], []
            for j, s in enumerate(syms):
                ss.append('<c%d:"%s">' % (j, s[1]) if s[0] == "T" else "<c%d:%s>" % (j, "E" if s[0] == "E" else s[1]))
                kids.append("Tree::from(c%d)" % j)
            return '<l:@L> %s <r:@R> => node("%s", l, r, vec![%s]),' % (" ".join(ss), label, ", ".join(kids))
        L.append("pub S: Tree = {")
        L.append("    " + alt("S#0", [("E",)]))
        L.append("    " + alt("S#1", [("T", "w"), ("E",), ("T", "w"), ("N", "S")]))
        L.append("};")
        for g in self.groups:
            L.append("P%s: Tree = {\n    %s\n};" % (g, alt("P%s#0" % g, [("T", "lp" + g), ("E",), ("T", "rp" + g)])))
        L.append("E: Tree = {")
        for i, a in enumerate(self.alts):
            at = []
            if a["prec"] is not None:
                at.append('#[precedence(level="%d")]' % a["prec"])
            if a["assoc"]:
                at.append('#[assoc(side="%s")]' % a["assoc"])
            if at:
                L.append("    " + " ".join(at))
            L.append("    " + alt("E#%d" % i, a["syms"]))
        L.append("};")
        return "\n".join(L) + "\n"


def gen_layout(r, idx, invalid=False):
    n = r.randint(2, 7)
    alts, groups = [], []
    k = [0]

    def T():
        k[0] += 1
        return ("T", "t%d" % k[0])
    for i in range(n):
        shape = r.choice(["atom", "atom", "bin", "bin", "bin", "pre", "post", "tern", "group", "paren"]) if i else r.choice(["atom", "group", "atom", "bin"])
        if shape == "atom":
            syms = [T()]
        elif shape == "group":
            g = str(len(groups)); groups.append(g); syms = [("N", "P" + g)]
        elif shape == "bin":
            syms = [("E",), T(), ("E",)]
        elif shape == "pre":
            syms = [T(), ("E",)]
        elif shape == "post":
            syms = [("E",), T()]
        elif shape == "tern":
            syms = [("E",), T(), ("E",), T(), ("E",)]
        else:
            syms = [T(), ("E",), T()]
        prec = r.choice(LEVELS) if (i == 0 or r.random() < 0.6) else None
        assoc = r.choice(["left", "right", "none", "left", "right", "all"]) if r.random() < 0.5 else None
        alts.append({"prec": prec, "assoc": assoc, "shape": shape, "syms": syms})
    # mostly valid: drop assoc attributes from the alternatives whose effective level is the minimum
    lv, eff = None, []
    for a in alts:
        lv = a["prec"] if a["prec"] is not None else lv
        eff.append(lv)
    m = min(eff)
    if not invalid:
        for a, e in zip(alts, eff):
            if e == m:
                a["assoc"] = None
        # an operand must exist at the tightest level, else nothing is derivable
        if not any(e == m and a["shape"] == "atom" for a, e in zip(alts, eff)):
            alts[eff.index(m)].update(shape="atom", syms=[T()])
        # keep most layouts unambiguous: an alternative with two recursive occurrences and associativity
        # `all` (also inherited) is ambiguous, so usually give it a side / move it off the first level
        la = None
        for a, e in zip(alts, eff):
            cur = a["assoc"] or ("all" if a["prec"] is not None else la) or "all"
            if len([x for x in a["syms"] if x[0] == "E"]) >= 2 and cur == "all" and r.random() < 0.85:
                if e == m:
                    a.update(shape="atom", syms=[T()])
                else:
                    a["assoc"] = cur = r.choice(["left", "right", "none"])
            la = cur
    else:
        cands = [a for a, e in zip(alts, eff) if e == m]
        r.choice(cands)["assoc"] = r.choice(["left", "right", "none", "all"])
    lay = Layout("prec%d" % idx, alts, groups)
    return lay if len(lay.terms) <= 26 else gen_layout(r, idx, invalid)


HDR = """From Coq Require Import List Arith.
From LV Require Import Norm.Prec.
Import ListNotations.
Definition enc_sym (s : osym) : list nat := match s with OTier l => [0; l] | OOther i => [1; i] end.
Definition enc_alt (a : list osym) : list nat := List.length a :: flat_map enc_sym a.
Definition enc_lvl (x : nat * list (list osym)) : list nat := fst x :: List.length (snd x) :: flat_map enc_alt (snd x).
Definition enc (alts : list palt) : list nat :=
  (if prevalidb alts then 1 else 0) ::
  match expand alts with Panic => [0] | Ok r => 1 :: List.length r :: flat_map enc_lvl r end.
"""


def model_expand(layouts):
    out = vlib.coq_eval_value("c12", HDR, "flat_map enc [%s]" % "; ".join(l.coq() for l in layouts), timeout=2400)
    nums = [int(x) for x in re.findall(r"\d+", out.split(":")[0])]
    pos, res = 0, []
    for _ in layouts:
        valid = nums[pos] == 1; pos += 1
        if nums[pos] == 0:
            pos += 1; res.append((valid, None)); continue
        pos += 1
        nl = nums[pos]; pos += 1
        lv = []
        for _ in range(nl):
            l, na = nums[pos], nums[pos + 1]; pos += 2
            alts = []
            for _ in range(na):
                ns = nums[pos]; pos += 1
                alts.append([(nums[pos + 2 * i], nums[pos + 2 * i + 1]) for i in range(ns)]); pos += 2 * ns
            lv.append((l, alts))
        res.append((valid, lv))
    if pos != len(nums):
        raise RuntimeError("cannot read the model's answer")
    return res


def tiered(lay, lv):
    """the model's tiers as a plain grammar (gram.G): top tier keeps the name E, tier l is E<l>"""
    rid = {v: k for k, v in lay.other_ids().items()}
    top = lv[-1][0]

    def tn(l):
        return "E" if l == top else "E%d" % l
    rules = {"S": [["E"], ["w", "E", "w", "S"]]}
    for g in lay.groups:
        rules["P" + g] = [["lp" + g, "E", "rp" + g]]
    for l, alts in lv:
        rules[tn(l)] = [[tn(x) if k == 0 else rid[x][1] for k, x in a] for a in alts]
    return gram.G(lay.name + "_tiers", lay.terms, rules, pubs=["S"])


def named_prods(t):
    def nm(s):
        return t["tnames"][s[1]].strip('"') if s[0] == "T" else t["ntnames"][s[1]]
    return sorted((t["ntnames"][lhs], tuple(nm(s) for s in rhs)) for i, (lhs, rhs) in enumerate(t["prods"]) if i != t["start"])


def named_tree(n, t):
    if "leaf" in n:
        return t["tnames"][n["leaf"]["idx"]].strip('"')
    if n["p"] == t["start"]:
        return named_tree(n["kids"][0], t)
    lhs, rhs = t["prods"][n["p"]]
    return [t["ntnames"][lhs]] + [named_tree(k, t) for k in n["kids"]]


def first_other(lay):
    """tier alternative -> source alternative: by the first non-recursive symbol (unique per source alternative)"""
    m = {}
    for i, a in enumerate(lay.alts):
        s = [x for x in a["syms"] if x[0] != "E"][0]
        m[s[1]] = i
    return m


def expected_compiled(n, lay, fo):
    """B's named tree -> what A's actions build: no node for fall-through productions"""
    if isinstance(n, str):
        return n
    nt, kids = n[0], n[1:]
    if re.fullmatch(r"E\d*", nt):
        if len(kids) == 1 and not isinstance(kids[0], str) and re.fullmatch(r"E\d*", kids[0][0]):
            return expected_compiled(kids[0], lay, fo)
        key = [k if isinstance(k, str) else k[0] for k in kids]
        key = [k for k in key if not re.fullmatch(r"E\d*", k)][0]
        return ["E#%d" % fo[key]] + [expected_compiled(k, lay, fo) for k in kids]
    return [nt + "#" + ("1" if (nt == "S" and len(kids) == 4) else "0")] + [expected_compiled(k, lay, fo) for k in kids]


def cg_tree(n, t):
    if "leaf" in n:
        return t["tnames"][n["leaf"]["idx"]].strip('"') if isinstance(n["leaf"], dict) and "idx" in n["leaf"] else n["leaf"]
    return [n["label"]] + [cg_tree(k, t) for k in n["kids"]]


def run(tier):
    t0 = time.time()
    rep = vlib.Reporter(PROP)
    nobl, ndis, names = vlib.proof_obligations(PROP, rep)
    r = vlib.rng(12)
    lal = vlib.build_lalrpop()
    drv = vlib.build_harness("drv")
    n = 14 if tier == "quick" else 160
    layouts = [gen_layout(r, i, invalid=(i % 7 == 5)) for i in range(n)]
    model = model_expand(layouts)
    ncase = nbad = 0
    dist = {"valid": 0, "rejected_by_rule": 0, "both_ok": 0, "both_conflict": 0, "words": 0, "accepted_words": 0, "compiled_layouts": 0, "compiled_words": 0}
    pairs = []

    def bad(key, obj):
        nonlocal nbad
        nbad += 1
        if nbad <= 3:
            rep.violation(key, obj)
    for lay, (valid, lv) in zip(layouts, model):
        ncase += 1
        sa, rsa, oa = lrengine.generate(lal, lay, "lane")
        base = {"layout": lay.name, "grammar_text": lay.render(), "annotations": [(a["prec"], a["assoc"], a["shape"]) for a in lay.alts]}
        if sa in ("panic", "timeout"):
            bad("panicked", dict(base, what="lalrpop %s on an annotated grammar" % sa, output=oa[-800:])); continue
        if not valid:
            dist["rejected_by_rule"] += 1
            if sa != "error" or "first precedence level" not in oa:
                bad("assoc-at-first-level-not-rejected", dict(base, what="an assoc attribute is in force at the first precedence level; validate_precedence must reject it, lalrpop said: %s" % sa, output=oa[-800:]))
            continue
        dist["valid"] += 1
        if lv is None:
            bad("model-panics-on-valid", dict(base, what="model expansion undefined on a layout that satisfies prevalidb (contradicts the theorem)")); continue
        B = tiered(lay, lv)
        sb, rsb, ob = lrengine.generate(lal, B, "lane")
        if sa != sb:
            bad("verdict-differs", dict(base, what="lalrpop says %s for the annotated grammar and %s for the documented tiered grammar" % (sa, sb),
                                        tiered_grammar_text=B.render(), output_annotated=oa[-600:], output_tiered=ob[-600:])); continue
        if sa != "ok":
            dist["both_conflict"] += 1; continue
        dist["both_ok"] += 1
        try:
            ta, tb = lrtab.parse_rs(rsa)["S"], lrtab.parse_rs(rsb)["S"]
        except lrtab.TranslateError as e:
            raise vlib.BuildBroken("translator cannot read the generated parser any more: %s" % e)
        pa, pb = named_prods(ta), named_prods(tb)
        if pa != pb:
            bad("productions-differ", dict(base, what="the lowered productions of the annotated grammar are not the documented tiers",
                                           only_in_lalrpop=[list(x) for x in pa if x not in pb], only_in_tiers=[list(x) for x in pb if x not in pa],
                                           tiered_grammar_text=B.render()))
            # keep going: the behavioural comparison yields the failing input
        pairs.append((lay, B, ta, tb))
    # behaviour: real driver on A's and B's tables
    tabs, cases, meta = {}, [], []
    per = 24 if tier == "quick" else 60
    for i, (lay, B, ta, tb) in enumerate(pairs):
        tabs["a%d" % i], tabs["b%d" % i] = ta, tb
        if not B.reduced("S"):
            continue
        for w in lrcheck.gen_words(B, "S", r, per, depth=7):
            ia = lrengine.tok_items(B, ta, w, r)
            tnb = {nme: j for j, nme in enumerate(tb["tnames"])}
            ib = [("k", tnb[ta["tnames"][it[1]]], it[2], it[3], it[4]) for it in ia]
            cases.append(("a%d" % i, ia, [])); cases.append(("b%d" % i, ib, []))
            meta.append((i, w))
    outs = [lrengine.decode(o) for o in lrengine.run_drv(drv, tabs, cases)] if cases else []
    trees = {}
    for j, (i, w) in enumerate(meta):
        lay, B, ta, tb = pairs[i]
        da, db = outs[2 * j], outs[2 * j + 1]
        ncase += 1
        dist["words"] += 1
        acc = B.accepts("S", w)
        dist["accepted_words"] += acc
        base = {"layout": lay.name, "grammar_text": lay.render(), "tiered_grammar_text": B.render(), "tokens": w}
        if da["kind"] in ("panic", "budget") or db["kind"] in ("panic", "budget"):
            bad("driver-" + da["kind"], dict(base, what="driver did not finish")); continue
        if (da["kind"] == "ok") != acc:
            bad("wrong-verdict", dict(base, what="the parser of the annotated grammar %s this sequence, the documented tiered grammar %s it" %
                                      ("accepts" if da["kind"] == "ok" else "rejects", "derives" if acc else "does not derive"))); continue
        if da["kind"] == "ok":
            na, nb_ = named_tree(da["tree"], ta), named_tree(db["tree"], tb)
            if na != nb_:
                bad("wrong-tree", dict(base, what="parse tree differs from the documented tiered grammar's", tree=na, tiers_tree=nb_)); continue
            trees.setdefault(i, []).append((w, cases[2 * j][1], nb_))
    # compiled tier: the user's actions see the documented grouping
    ncomp = 3 if tier == "quick" else 24
    sel = [i for i in trees][:ncomp]
    if sel:
        ok, out, binary, units = cgcheck.build_corpus(rep, lal, [pairs[i][0] for i in sel], variants=("t", "a"))
        if not ok:
            bad("generated-code-does-not-compile", {"what": "rustc rejects a parser generated from an annotated grammar", "output": out[-1500:]})
        else:
            cc, cm = [], []
            for u in units:
                i = sel[u["gi"]]
                lay, B, ta, tb = pairs[i]
                for (w, items, nb_) in trees[i][:20]:
                    cc.append((u["name"], "S", items, ta, [])); cm.append((i, u["variant"], w, nb_))
            res = cgb.run(binary, cc)
            dist["compiled_layouts"] = len(sel)
            for (i, v, w, nb_), d in zip(cm, res):
                lay, B, ta, tb = pairs[i]
                ncase += 1
                dist["compiled_words"] += 1
                want = expected_compiled(nb_, lay, first_other(lay))
                got = cg_tree(d["tree"], ta) if d["kind"] == "ok" else d["kind"]
                if got != want:
                    bad("wrong-value", {"layout": lay.name, "grammar_text": lay.render(), "variant": "recursive ascent" if v == "a" else "table driven", "tokens": w,
                                        "what": "the value built by the user's actions is not the documented grouping", "value": got, "documented": want})
    cov = {"obligations": nobl + ncase, "discharged": ndis + ncase - nbad,
           "checker_cmd": "make -C coq; coqc Props/C12.v; coqc .cache/cases/c12/val.v (vm_compute expand); lalrpop on annotated vs model-expanded grammar; harness drv; harness cgb",
           "trusted_base": vlib.TRUSTED_COMMON + ["tools/c12.py: printer of annotated layouts, printer of the model's tiers (top tier keeps the name, tier l is E<l>)", "tools/lrtab.py production comments reader", "tools/gram.py Earley oracle (verdicts)"],
           "theorems": names, "evaluations": ncase, "distinct_nontrivial": dist["both_ok"] + dist["accepted_words"],
           "rule": "random layouts of 2-7 alternatives (atom, group, binary, prefix, postfix, ternary, bracketed) with sparse level numbers, interleaved order, inherited levels/assoc, "
                   "every 7th with an assoc attribute in force at the first level (must be rejected); words: sentences of the tiers + 1-2 mutations + random streams",
           "distribution": dist, "samples": [{"annotations": [(a["prec"], a["assoc"], a["shape"]) for a in pairs[0][0].alts], "tiers": pairs[0][1].rules}] if pairs else [{"note": "no accepted layout"}]}
    vlib.write_evidence(PROP, tier, "proof", cov, time.time() - t0, violations=len(rep.viol),
                        assumptions=["alternatives are flat symbol lists (recursive occurrences nested in groups/repeats/macro arguments are walked in the same order by replace_symbol but are not generated)",
                                     "layouts whose tiers are not LR(1) are only compared by verdict"])
    return rep.finish()


def replay(path):
    print(json.dumps(json.load(open(path)), indent=1)[:4000])
    return run("quick")
