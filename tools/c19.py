"""C19 — accepted grammars compile: inferred types agree with the generated code.
Theorems (Props/C19.v): typing of the values built by the macro byproducts (Vec/Option/tuple) against the
types declared for them, maybe_tuple.
Tie, on every run: random grammars mixing inferred nonterminal types (pass-through, tuples of selected
symbols, Vec/Option from * + ?, groups), annotated types with well-typed generic actions, recursion
through annotated nonterminals, error recovery, lifetimes -- in four configurations (table-driven /
recursive ascent x built-in lexer / extern tokens with a non-Copy location type): whenever lalrpop
accepts, rustc must accept the generated module; the built-in-lexer variants are also run."""
import os, re, time, json
import vlib, sgb

PROP = "C19"

SUPPORT = '''
use std::fmt::Debug;
pub fn sz<T: Debug>(t: &T) -> usize { format!("{:?}", t).len() }
#[derive(Clone, Debug, PartialEq)]
pub enum Tok { A, B, C, D, Comma }
#[derive(Clone, Debug, PartialEq, Default)]
pub struct Loc(pub String);          // deliberately not Copy
#[derive(Clone, Debug, PartialEq)]
pub struct Ast<'a, T> { pub name: &'a str, pub items: Vec<T> }
'''


def gen_body(r, n):
    """nonterminal definitions N0..N{n-1} (DAG on inferred ones); returns list of lines"""
    L = []
    tys = {}            # i -> "inferred" | "usize"
    for i in range(n):
        later = list(range(i + 1, n))
        k = r.random()
        if not later or k < 0.18:
            form = r.choice(['"a"', '"b"', '<"a"> "b"', '"a" "b"', '("a" ",")*', '"c"?', '"b"+', '("a" <"b">)', '<("a" "b")>+ "c"'])
            L.append("N%d = %s;" % (i, form)); tys[i] = "inferred"
            continue
        j = r.choice(later)
        j2 = r.choice(later)
        if k < 0.3:
            L.append("N%d = N%d;" % (i, j)); tys[i] = "inferred"
        elif k < 0.4:
            L.append('N%d = <N%d> "c";' % (i, j)); tys[i] = "inferred"
        elif k < 0.5:
            L.append('N%d = N%d "d" N%d;' % (i, j, j2)); tys[i] = "inferred"
        elif k < 0.58:
            L.append('N%d = (<N%d> ",")*;' % (i, j)); tys[i] = "inferred"
        elif k < 0.64:
            L.append('N%d = "d" <N%d?>;' % (i, j)); tys[i] = "inferred"
        elif k < 0.7:
            L.append('N%d = ("c" N%d)+;' % (i, j)); tys[i] = "inferred"
        elif k < 0.76:
            L.append('N%d = { <N%d> "c" "c", "d" "d" <N%d> };' % (i, j, j)); tys[i] = "inferred"
        elif k < 0.86:
            L.append('N%d: usize = { <x:N%d> "c" <y:N%d> => sz(&x) + sz(&y), "d" <n:N%d> "d" => n + 1 };' % (i, j, j2, i)); tys[i] = "usize"
        elif k < 0.93:
            L.append('N%d: (usize, Vec<usize>) = <v:("c" <N%d>)*> => (v.len(), v.iter().map(sz).collect());' % (i, j)); tys[i] = "other"
        else:
            L.append('N%d: Option<Box<usize>> = { <x:N%d?> "d" => x.as_ref().map(|v| Box::new(sz(v))) };' % (i, j)); tys[i] = "other"
    return L


def render(body, lexer, ascent, recovery, generic):
    L = ["use crate::support::*;"]
    if ascent:
        L.append("#[recursive_ascent]")
    if generic == 2:
        # two type parameters related by one where-clause, only one of them occurs in a symbol type
        L.append("grammar<T, F>(make: &F) where F: Fn(usize) -> T, T: Clone + std::fmt::Debug;")
    elif generic:
        L.append("grammar<'s, T>(name: &'s str, seed: &T) where T: Clone + std::fmt::Debug;")
    else:
        L.append("grammar;")
    if lexer == "extern":
        L.append('extern {\n    type Location = Loc;\n    type Error = String;\n    enum Tok { "a" => Tok::A, "b" => Tok::B, "c" => Tok::C, "d" => Tok::D, "," => Tok::Comma }\n}')
    if generic == 2:
        L.append("pub S: Vec<T> = <l:@L> <xs:Item*> <r:@R> => { let _ = (&l, &r); xs.into_iter().map(|x| make(x)).collect() };")
        L.append("pub One: Option<T> = <x:Item?> => x.map(|v| make(v));")
    elif generic:
        L.append("pub S: Ast<'s, (usize, T)> = <l:@L> <xs:Item*> <r:@R> => { let _ = (&l, &r); Ast { name, items: xs.into_iter().map(|x| (x, seed.clone())).collect() } };")
    else:
        L.append("pub S: Vec<usize> = <l:@L> <xs:Item*> <r:@R> => { let _ = (&l, &r); xs };")
    if recovery:
        L.append('Item: usize = { <x:N0> "," => sz(&x), <e:!> "," => sz(&e.dropped_tokens.len()) };')
    else:
        L.append('Item: usize = <x:N0> "," => sz(&x);')
    return "\n".join(L + body) + "\n"


MACRO_TYPES = """grammar;
Id: String = r"[a-z]+" => <>.to_string();
Same<T>: T = <T>;
Boxed<T>: Box<T> = <t:T> => Box::new(t);
Twice<T>: (T, T) = <a:T> <b:T> => (a, b);
Many<T>: Vec<T> = <v:T*> => v;
Leak<T>: &'static T = <t:T> => { let r = Box::leak(Box::new(t)); &*r };
LeakMut<T>: &'static mut T = <t:T> => Box::leak(Box::new(t));
Nested<T>: Vec<(&'static T, Option<Box<T>>)> = <a:Leak<T>> <b:Boxed<T>?> => vec![(a, b)];
pub S: usize = {
    "same" <a:Same<Id>> "," => a.len(),
    "boxed" <a:Boxed<Id>> "," => a.len(),
    "twice" <a:Twice<Id>> "," => a.0.len() + a.1.len(),
    "many" <a:Many<Id>> "," => a.len(),
    "leak" <a:Leak<Id>> <b:Leak<Id>*> "," => a.len() + b.len(),
    "leakmut" <a:LeakMut<Id>> "," => { a.push('x'); a.len() },
    "nested" <a:Nested<Id>> "," => a.len(),
};
"""


def run(tier):
    t0 = time.time()
    rep = vlib.Reporter(PROP)
    nobl, ndis, names = vlib.proof_obligations(PROP, rep)
    r = vlib.rng(19)
    lal = vlib.build_lalrpop()
    n = 10 if tier == "quick" else 90
    units, meta = [], {}
    dist = {"bodies": n, "accepted": 0, "rejected": 0, "modules": 0, "ran": 0}
    ncase = nbad = 0
    for i in range(n):
        body = gen_body(r, r.randint(2, 6))
        recovery, generic = (i % 3 == 1), (1 if i % 4 == 2 else 2 if i % 4 == 3 else 0)
        for lexer in ("intern", "extern"):
            for ascent in (False, True):
                if ascent and recovery:
                    continue
                name = "g%d%s%s" % (i, lexer[0], "a" if ascent else "t")
                text = render(body, lexer, ascent, recovery, generic)
                st, rs, out = sgb.generate(lal, "c19_" + name, text)
                ncase += 1
                if st == "panic":
                    nbad += 1
                    rep.violation("panicked", {"what": "lalrpop panicked", "grammar_text": text, "output": out[-800:]})
                    continue
                if st != "ok":
                    dist["rejected"] += 1
                    continue
                dist["accepted"] += 1
                u = {"name": name, "rs": rs, "parsers": ["S"] if (lexer == "intern") else [],
                     "args": '"n", &7u8, ' if generic == 1 else "&|n: usize| n as u64, " if generic == 2 else ""}
                units.append(u); meta[name] = text
    # macros whose DECLARED types mention their parameters in every position (plain, inside generic types,
    # tuples, and under references): the types recorded for the instantiated nonterminals must substitute them
    for v, attr in (("t", ""), ("a", "#[recursive_ascent] ")):
        text = MACRO_TYPES.replace("grammar;", attr + "grammar;", 1)
        st, rs, out = sgb.generate(lal, "c19_mty" + v, text)
        ncase += 1
        if st == "panic":
            nbad += 1
            rep.violation("panicked", {"what": "lalrpop panicked", "grammar_text": text, "output": out[-800:]})
        elif st != "ok":
            nbad += 1
            rep.violation("well-typed-macro-grammar-rejected", {"what": "a grammar whose macros declare parameterised types was rejected", "grammar_text": text, "output": out[-1200:]})
        else:
            dist["accepted"] += 1
            units.append({"name": "mty" + v, "rs": rs, "parsers": ["S"], "args": ""}); meta["mty" + v] = text
    dist["modules"] = len(units)
    # compile in batches; on failure bisect to the offending module(s)
    def compiles(us):
        ok, out, binary = sgb.build(us, support=SUPPORT)
        return ok, out, binary
    ok, out, binary = compiles(units)
    failing = []
    if not ok:
        todo = [units]
        while todo:
            us = todo.pop()
            o, ou, _ = compiles(us)
            if o:
                continue
            if len(us) == 1:
                failing.append((us[0], ou)); continue
            todo += [us[: len(us) // 2], us[len(us) // 2:]]
        for u, ou in failing[:3]:
            nbad += 1
            rep.violation("accepted-grammar-does-not-compile", {"what": "lalrpop accepts the grammar but rustc rejects the generated module (%s)" % u["name"],
                                                                "grammar_text": meta[u["name"]], "rustc": "\n".join(l for l in ou.split("\n") if l.startswith(("error", " -->", "  -->")))[:2500] or ou[-2500:]})
        nbad += max(0, len(failing) - 3)
        good = [u for u in units if u["name"] not in {f[0]["name"] for f in failing}]
        ok, out, binary = compiles(good) if good else (False, "", None)
        units = good
    if ok:
        cases = []
        for u in units:
            if u["parsers"]:
                for s in ["", "a,", "a b,", "b,a,", "a c,", "d a d,", "c a c a,", "a , b", "b b b c,", "d d,", "x"]:
                    cases.append((u["name"], "S", s))
        res = sgb.run(binary, cases)
        dist["ran"] = len(cases)
        for (m, p, s), o in zip(cases, res):
            ncase += 1
            if o == "PANIC":
                nbad += 1
                rep.violation("generated-parser-panics", {"what": "a compiled parser panicked", "grammar_text": meta[m], "input": s})
    cov = {"obligations": nobl + ncase, "discharged": ndis + ncase - nbad,
           "checker_cmd": "make -C coq; coqc Props/C19.v; lalrpop on 4 configurations per grammar; cargo build harness/sgb (bisecting on failure); run",
           "trusted_base": vlib.TRUSTED_COMMON + ["rustc as the judge of `compiles`", "harness/sgb"],
           "theorems": names, "evaluations": ncase, "distinct_nontrivial": dist["modules"],
           "rule": "random DAGs of nonterminals with inferred types (pass-through, selected symbols, tuples, Vec/Option/groups, several alternatives) and annotated ones with generic well-typed actions, "
                   "self-recursion through annotated nonterminals, optional error recovery, grammar type/lifetime parameters; x {table-driven, recursive ascent} x {built-in lexer, extern tokens with a non-Copy Location}",
           "distribution": dist, "samples": [{"grammar_text": next(iter(meta.values()))}] if meta else [{"note": "nothing accepted"}]}
    vlib.write_evidence(PROP, tier, "proof", cov, time.time() - t0, violations=len(rep.viol),
                        assumptions=["`well-typed user code` is ensured by construction (generic helper sz over Debug)", "rustc is the oracle; no model of Rust's type system"])
    return rep.finish()


def replay(path):
    print(json.dumps(json.load(open(path)), indent=1)[:4000])
    return run("quick")
