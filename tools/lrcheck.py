"""Shared skeleton of the Engine-A checks: build, tables, run cases on the real driver, compare with
the Coq model inside Coq, judge disagreements against the property's own statement."""
import time, json
import vlib, gram, lrengine, lrtab


class Ctx:
    pass


def prepare(grammars, modes=("lane", "lr1", "lalr")):
    c = Ctx()
    c.lalrpop = vlib.build_lalrpop()
    c.drv = vlib.build_harness("drv")
    try:
        c.ok, c.other = lrengine.tables_for(c.lalrpop, grammars, modes)
    except lrtab.TranslateError as e:
        raise vlib.BuildBroken("translator cannot read the generated parser any more: %s" % e)
    c.tabs = {"t%d" % i: e["t"] for i, e in enumerate(c.ok)}
    for i, e in enumerate(c.ok):
        e["tid"] = "t%d" % i
    return c


def case_desc(c, case):
    tid, items, orc = case[:3]
    e = c.ok[int(tid[1:])]
    return {"grammar": e["g"].name, "grammar_text": e["g"].render(lalr=lrengine.MODES[e["mode"]][1]),
            "mode": e["mode"], "start": e["start"], "items": [list(i) for i in items], "oracle": [list(o) for o in orc]}


def correspond(prop, rep, c, cases, judge, name, shard=150):
    """cases: list of (tid, items, orc, meta).  Returns (outs decoded, n_bad)."""
    outs = lrengine.run_drv(c.drv, c.tabs, [x[:3] for x in cases])
    dec = [lrengine.decode(o) for o in outs]
    # 1. the property's own statement, judged directly on the implementation's output
    nviol = 0
    for case, d in zip(cases, dec):
        why = judge(case, d)
        if why:
            nviol += 1
            if nviol <= 3:
                rep.violation(why[0], dict(case_desc(c, case), what=why[1], implementation=d))
    # 2. correspondence model <-> implementation, evaluated inside Coq
    checks = [lrengine.coq_check(x[0], x[1], x[2], o) for x, o in zip(cases, outs)]
    bad = vlib.coq_eval_cases(name, lrengine.coq_header(c.tabs), checks, shard_size=shard)
    if bad and nviol == 0:
        for i in bad[:2]:
            rep.violation("model-vs-impl", dict(case_desc(c, cases[i]), implementation=dec[i],
                          what="the real Parser::drive and the Coq model LR/Driver.v disagree on this case; the theorems of "
                               "Props/%s.v therefore no longer speak about the code. The property's statement itself was not "
                               "contradicted on any explored case." % prop,
                          broken="correspondence LR/Driver.v <-> lalrpop-util/src/state_machine.rs", coq_check=checks[i]),
                          nofail=True)
    return dec, len(bad)
