"""Shared skeleton of the Engine-A checks: build, tables, run cases on the real driver, compare with
the Coq model inside Coq, judge disagreements against the property's own statement."""
import time, json
import vlib, gram, lrengine, lrtab


class Ctx:
    pass


def prepare(grammars, modes=("lane", "lr1", "lalr")):
    c = Ctx()
    c.lalrpop = vlib.build_lalrpop()
    c.drv = vlib.build_harness("drv")
    try:
        c.ok, c.other = lrengine.tables_for(c.lalrpop, grammars, modes)
    except lrtab.TranslateError as e:
        raise vlib.BuildBroken("translator cannot read the generated parser any more: %s" % e)
    c.tabs = {"t%d" % i: e["t"] for i, e in enumerate(c.ok)}
    for i, e in enumerate(c.ok):
        e["tid"] = "t%d" % i
    return c


def case_desc(c, case):
    tid, items, orc = case[:3]
    e = c.ok[int(tid[1:])]
    return {"grammar": e["g"].name, "grammar_text": e["g"].render(lalr=lrengine.MODES[e["mode"]][1]),
            "mode": e["mode"], "start": e["start"], "items": [list(i) for i in items], "oracle": [list(o) for o in orc]}


def correspond(prop, rep, c, cases, judge, name, shard=150):
    """cases: list of (tid, items, orc, meta).  Returns (outs decoded, n_bad)."""
    outs = lrengine.run_drv(c.drv, c.tabs, [x[:3] for x in cases])
    dec = [lrengine.decode(o) for o in outs]
    # 1. the property's own statement, judged directly on the implementation's output
    nviol = 0
    for case, d in zip(cases, dec):
        why = judge(case, d)
        if why:
            nviol += 1
            if nviol <= 3:
                rep.violation(why[0], dict(case_desc(c, case), what=why[1], implementation=d))
    # 2. correspondence model <-> implementation, evaluated inside Coq
    checks = [lrengine.coq_check(x[0], x[1], x[2], o) for x, o in zip(cases, outs)]
    bad = vlib.coq_eval_cases(name, lrengine.coq_header(c.tabs), checks, shard_size=shard)
    if bad and nviol == 0:
        for i in bad[:2]:
            rep.violation("model-vs-impl", dict(case_desc(c, cases[i]), implementation=dec[i],
                          what="the real Parser::drive and the Coq model LR/Driver.v disagree on this case; the theorems of "
                               "Props/%s.v therefore no longer speak about the code. The property's statement itself was not "
                               "contradicted on any explored case." % prop,
                          broken="correspondence LR/Driver.v <-> lalrpop-util/src/state_machine.rs", coq_check=checks[i]),
                          nofail=True)
    return dec, len(bad)


# ---------------------------------------------------------------- certificates

def certify(prop, rep, c, parts=("valid",), name="cert"):
    """Kernel-check (vm_compute) the validator on every translated table with a freshly computed
    certificate.  Returns (n_obligations, n_discharged, failing entries)."""
    import lrcert
    hdr = "From Coq Require Import List ZArith Bool.\nFrom LV Require Import LR.Driver LR.Validator.\nImport ListNotations.\n"
    checks, owners = [], []
    shards = {}
    for e in c.ok:
        cert = lrcert.analyse(e["t"])
        e["cert"] = cert
        tid = e["tid"]
        hdr_e = "Definition T_%s : tables := %s.\nDefinition C_%s : cert := %s.\n" % (tid, lrtab.to_coq(e["t"]), tid, lrcert.to_coq(e["t"], cert))
        e["coq_defs"] = hdr_e
    # one shard per group of tables so that headers stay small
    group = 6
    bad_all = []
    import os, subprocess, re, shutil, time as _t
    d = os.path.join(vlib.CACHE, "cases", name)
    shutil.rmtree(d, ignore_errors=True)
    os.makedirs(d)
    procs = []
    for gi in range(0, len(c.ok), group):
        es = c.ok[gi:gi + group]
        f = os.path.join(d, "cert%d.v" % gi)
        with open(f, "w") as w:
            w.write(hdr)
            for e in es:
                w.write(e["coq_defs"])
            terms = []
            for e in es:
                for part in parts:
                    # the tables list the productions of ALL nonterminals of the grammar, also of those no start
                    # symbol reaches: `productive` (a hypothesis of the C04/C05 viability theorems) speaks about all
                    # of them, so it is only demanded when every nonterminal derives a terminal string
                    if part == "productive" and not (e["g"].reduced(e["start"]) and all(nt in e["g"].min_height() for nt in e["g"].rules)):
                        continue
                    arg = "T_%s" % e["tid"] if part == "start_eof_only" else "T_%s C_%s" % (e["tid"], e["tid"])
                    terms.append((e, part, "%s %s" % (part, arg)))
            w.write("Eval vm_compute in [%s].\n" % "; ".join(t[2] for t in terms))
        procs.append((terms, f, subprocess.Popen(["coqc", "-noglob"] + vlib.COQ_FLAGS + [f], stdout=subprocess.PIPE,
                                                 stderr=subprocess.STDOUT, text=True)))
        while sum(1 for _, _, p in procs if p.poll() is None) >= vlib.NPROC:
            _t.sleep(0.05)
    nobl = ndis = 0
    failing = []
    for terms, f, p in procs:
        out, _ = p.communicate(timeout=1800)
        if p.returncode != 0:
            raise RuntimeError("coqc failed on %s:\n%s" % (f, out[-2000:]))
        m = re.search(r"=\s*\[(.*?)\]\s*:\s*list bool", out, re.S)
        vals = re.findall(r"true|false", m.group(1))
        assert len(vals) == len(terms), (len(vals), len(terms), out[-500:])
        for (e, part, term), v in zip(terms, vals):
            nobl += 1
            if v == "true":
                ndis += 1
            else:
                failing.append((e, part))
    return nobl, ndis, failing


def search_failing(c, e, judge, r, maxlen=6, cap=4000):
    """Failing-input search for one table: every viable prefix up to maxlen (breadth first, via the Earley
    oracle), each extended by every terminal, plus the prefixes themselves (EOF)."""
    g, start = e["g"], e["start"]
    frontier, words = [[]], [[]]
    for _ in range(maxlen):
        nxt = []
        for p in frontier:
            conts = g.continuations(start, p)
            if conts is None:
                continue
            for t in g.terms:
                words.append(p + [t])
                if t in conts:
                    nxt.append(p + [t])
            if len(words) > cap:
                break
        frontier = nxt
        if len(words) > cap or not frontier:
            break
    cases = [(e["tid"], lrengine.tok_items(g, e["t"], w, r), [], {}) for w in words[:cap]]
    outs = lrengine.run_drv(c.drv, {e["tid"]: e["t"]}, [x[:3] for x in cases])
    for case, o in zip(cases, outs):
        d = lrengine.decode(o)
        why = judge(case, d)
        if why:
            return case, d, why
    return None


def report_cert_failures(prop, rep, c, failing, found_concrete, judge=None, r=None):
    """a certificate that no longer validates: the property is not shown for that parser; search that
    parser for a concrete failing input before giving up"""
    if failing and not found_concrete and judge is not None:
        seen = set()
        for e, part in failing:
            if e["tid"] in seen or len(seen) >= 4:
                continue
            seen.add(e["tid"])
            hit = search_failing(c, e, judge, r)
            if hit:
                case, d, why = hit
                rep.violation(why[0], dict(case_desc(c, case), what=why[1], implementation=d,
                                           found_by="targeted search after certificate `%s` failed" % part))
                found_concrete = True
    if failing and not found_concrete:
        for e, part in failing[:2]:
            rep.violation("certificate:" + part, {
                "what": "the validator condition `%s` no longer holds for the tables lalrpop generates for this grammar, so the "
                        "theorems of Props/%s.v do not apply to it; no input contradicting the statement was found" % (part, prop),
                "broken": "kernel check of LR.Validator.%s on translated tables" % part,
                "grammar": e["g"].name, "grammar_text": e["g"].render(lalr=lrengine.MODES[e["mode"]][1]), "mode": e["mode"], "start": e["start"]},
                nofail=True)


# ---------------------------------------------------------------- inputs and tree helpers

def gen_words(g, start, r, n, depth=6):
    """mostly-valid inputs: sentences, few-step mutations of sentences, and a short random stream"""
    out = []
    for i in range(n):
        w = g.random_sentence(r, start, depth=r.randint(1, depth))
        k = i % 4
        if k == 1:
            w = lrengine.mutate(g, w, r)
        elif k == 2:
            w = lrengine.mutate(g, lrengine.mutate(g, w, r), r)
        elif k == 3 and r.random() < 0.4:
            w = [r.choice(g.terms) for _ in range(r.randint(0, 6))]
        out.append(w)
    return out


def words_of(items, t):
    names = t["tnames"]
    return [names[it[1]].strip('"') if it[1] >= 0 else None for it in items if it[0] == "k"]


def leaves(tr):
    if "leaf" in tr:
        return [tr["leaf"]]
    if "err" in tr:
        return []
    return [x for k in tr["kids"] for x in leaves(k)]


def postorder(tr, start):
    if "kids" not in tr:
        return []
    out = [x for k in tr["kids"] for x in postorder(k, start)]
    return out + ([tr["p"]] if tr["p"] != start else [])


def short_strings(g, maxlen, cap=4000):
    """all token strings over the grammar's terminals up to a length (exhaustive small inputs)"""
    import itertools
    out = []
    for n in range(0, maxlen + 1):
        for w in itertools.product(g.terms, repeat=n):
            out.append(list(w))
            if len(out) >= cap:
                return out
    return out
