"""C23 — each grammar file maps to exactly one output at the documented path (random directory trees x
configurations on the real library API / CLI, compared with Build/Paths.v evaluated in Coq)."""
import os, time, shutil
import vlib, fsrun
from vlib import coq_string

PROP = "C23"
HEADER = """From Coq Require Import List String Bool.
From LV Require Import Build.Paths.
Import ListNotations.
Definition bch (n : nat) : string := String (Ascii.ascii_of_nat n) EmptyString.
Fixpoint seqb (a b : list string) : bool :=
  match a, b with [], [] => true | x :: a', y :: b' => String.eqb x y && seqb a' b' | _, _ => false end.
Fixpoint pseqb (a b : list (list string)) : bool :=
  match a, b with [], [] => true | x :: a', y :: b' => seqb x y && pseqb a' b' | _, _ => false end.
Definition chk (c : cfg) (root : path) (tree : list node) (outs : list (list string)) (ok : bool) : bool :=
  let files := flat_map (walk root) tree in
  let '(os, k) := process c files in pseqb os outs && Bool.eqb k ok.
Definition chk1 (c : cfg) (dir : path) (f : fname) (out : list string) : bool :=
  match resolve c dir f with ROut o => seqb o out | _ => match out with [] => true | _ => false end end.
Local Open Scope string_scope.
"""

NAMES = ["a", "b", "x.y", "src", "main", "g-1", "Z", "é", "sp ace", "tab\tx", "a.b.c", ".hidden", "UP"]
EXTS = ["lalrpop", "lalrpop", "lalrpop", "rst", "txt", "LALRPOP", "lalrpop.bak", ""]
DIRS = ["src", "sub", "src", "deep", "a.d", "x y", "é", "lib"]


def split_ext(name):
    """Rust Path::extension rule"""
    if name.startswith(".") and "." not in name[1:]:
        return name, None
    if "." not in name:
        return name, None
    i = name.rindex(".")
    if i == 0:
        return name, None
    return name[:i], name[i + 1:]


def gen_tree(r, depth=2):
    """-> list of ('f', name) | ('d', name, children) | ('l', name, target relpath)"""
    out, used = [], set()
    for _ in range(r.randint(1, 4)):
        if depth > 0 and r.random() < 0.4:
            n = r.choice(DIRS)
            if n in used:
                continue
            used.add(n)
            out.append(("d", n, gen_tree(r, depth - 1)))
        else:
            base, e = r.choice(NAMES), r.choice(EXTS)
            n = base + ("." + e if e else "")
            if n in used:
                continue
            used.add(n)
            out.append(("f", n))
    return out


def materialize(root, tree, grammar):
    os.makedirs(root, exist_ok=True)
    for t in tree:
        p = os.path.join(root, t[1])
        if t[0] == "f":
            open(p, "w").write(grammar)
        elif t[0] == "d":
            materialize(p, t[2], grammar)


def coq_fname(name):
    st, ex = split_ext(name)
    ws = any(c.isspace() for c in name)
    return "{| stem := %s; ext := %s; has_ws := %s |}" % (coq_string(st), "Some " + coq_string(ex) if ex is not None else "None", "true" if ws else "false")


def coq_tree(tree):
    items = []
    for t in sorted(tree, key=lambda t: t[1].encode()):
        if t[0] == "f":
            items.append("File %s" % coq_fname(t[1]))
        elif t[0] == "d":
            items.append("Dir %s %s" % (coq_string(t[1]), coq_tree(t[2])))
    return "[" + "; ".join(items) + "]"


def coq_path(p):
    return "[" + "; ".join(coq_string(c) for c in p) + "]"


def list_rs(root):
    out = []
    for d, _, fs in os.walk(root):
        for f in fs:
            if f.endswith(".rs"):
                out.append(os.path.relpath(os.path.join(d, f), root))
    return sorted(out)


def run(tier):
    t0 = time.time()
    rep = vlib.Reporter(PROP)
    nobl, ndis, names = vlib.proof_obligations(PROP, rep)
    r = vlib.rng(23)
    api = vlib.build_harness("apirun")
    lal = vlib.build_lalrpop()
    grammar = fsrun.text_of("g0")
    n = 40 if tier == "quick" else 400
    checks, metas = [], []
    stats = {"trees": 0, "grammar_files": 0, "rejected_whitespace": 0, "configs": {}}
    for i in range(n):
        tree = gen_tree(r)
        mode = r.choice(["process", "process_dir", "cargo", "cli_outdir", "cli_beside", "process_file"])
        stats["configs"][mode] = stats["configs"].get(mode, 0) + 1
        d = fsrun.fresh_dir("t%d" % (i % 8))
        work = os.path.join(d, "w")
        if mode in ("process", "process_dir"):
            in_dir = r.choice([["in"], ["in", "src"], ["src"]])
            out_dir = ["out"]
            materialize(os.path.join(work, *in_dir), tree, grammar)
            args = (["process", "in_dir=" + "/".join(in_dir)] if mode == "process" else ["process_dir:" + "/".join(in_dir)]) + ["out_dir=out", "rerun=1"]
            env = {}
            cfg = "{| in_dir := Some %s; out_dir := Some %s |}" % (coq_path(in_dir), coq_path(out_dir))
            rootp = in_dir[:-1]
            top = [("d", in_dir[-1], tree)]
        elif mode == "cargo":
            materialize(os.path.join(work, "src"), tree, grammar)
            args = ["cargo", "rerun=1"]
            env = {"OUT_DIR": "target_out"}
            cfg = '{| in_dir := Some ["src"%string]; out_dir := Some ["target_out"%string] |}'
            rootp, top = [], [("d", "src", tree)]
        else:
            materialize(work, tree, grammar)
        before = set(list_rs(work))
        if mode in ("process", "process_dir", "cargo"):
            p = vlib.sh([api] + args, cwd=work, env=env, check=False)
            lines = p.stdout.strip().split("\n")
            status = lines[-1] if lines else ""
            reruns = [l.split("=", 1)[1] for l in lines if l.startswith("cargo:rerun-if-changed=")]
            outs = sorted(set(list_rs(work)) - before)
            if status.startswith("PANIC"):
                rep.violation("api-panicked", {"what": "the library API panicked", "mode": mode, "tree": tree, "output": p.stdout[-600:]})
                continue
            # expected from the model, evaluated in Coq; outputs compared as a sorted set of relative paths
            ok = status == "OK"
            checks.append(("tree", cfg, coq_path(rootp), coq_tree(top), outs, ok, reruns))
            metas.append({"mode": mode, "tree": tree, "args": args, "outs": outs, "status": status, "reruns": reruns})
        else:
            # one CLI / process_file invocation per grammar-looking file of the top directory
            for t in tree:
                if t[0] != "f" or split_ext(t[1])[1] != "lalrpop":
                    continue
                name = t[1]
                if mode == "cli_outdir":
                    code, o = fsrun.run_lalrpop(lal, ["-f", "-o", "outd", name], work)
                    cfg1 = '{| in_dir := None; out_dir := Some ["outd"%string] |}'
                elif mode == "cli_beside":
                    code, o = fsrun.run_lalrpop(lal, ["-f", name], work)
                    cfg1 = "{| in_dir := None; out_dir := None |}"
                else:
                    p = vlib.sh([api, "process_file:" + name, "out_dir=po", "force=1"], cwd=work, check=False)
                    code, o = (0 if p.stdout.strip().endswith("OK") else 1), p.stdout
                    cfg1 = '{| in_dir := None; out_dir := Some ["po"%string] |}'
                if "panicked" in o or "PANIC" in o:
                    rep.violation("panicked", {"what": "lalrpop panicked on a file name", "name": name, "output": o[-500:]})
                    continue
                now = set(list_rs(work))
                new = sorted(now - before)
                before = now
                checks.append(("one", cfg1, name, new))
                metas.append({"mode": mode, "name": name, "new_outputs": new, "exit": code})
        stats["trees"] += 1
    # Coq evaluation
    terms = []
    for c in checks:
        if c[0] == "tree":
            _, cfg, rootp, tree, outs, ok, reruns = c
            # the model lists outputs in processing order; the file system listing is sorted: compare as sets through sorting in python
            terms.append(("tree", c))
        else:
            terms.append(("one", c))
    coq_terms = []
    for kind, c in terms:
        if kind == "one":
            _, cfg1, name, new = c
            out = new[0].split("/") if len(new) == 1 else []
            coq_terms.append("chk1 %s [] %s %s" % (cfg1, coq_fname(name), coq_path(out)))
        else:
            _, cfg, rootp, tree, outs, ok, reruns = c
            coq_terms.append("(let files := flat_map (walk %s) %s in let '(os, k) := process %s files in Bool.eqb k %s && Nat.eqb (List.length (nodup (list_eq_dec string_dec) os)) %d && forallb (fun o => existsb (seqb o) %s) os)"
                             % (rootp, tree, cfg, "true" if ok else "false", len(outs), "[" + "; ".join(coq_path(o.split("/")) for o in outs) + "]"))
    bad = vlib.coq_eval_cases("c23", HEADER, coq_terms, shard_size=100)
    for i in bad[:3]:
        rep.violation("path-or-discovery-differs", {"what": "the outputs written by lalrpop differ from the documented mapping (Build/Paths.v): wrong path, missing/extra output, or wrong success status",
                      "case": metas[i], "coq_check": coq_terms[i][:1500]})
    # rerun directives name exactly the processed files
    def walk_py(prefix, tree):
        out = []
        for t in sorted(tree, key=lambda t: t[1].encode()):
            if t[0] == "f":
                if split_ext(t[1])[1] == "lalrpop":
                    out.append(prefix + [t[1]])
            else:
                out += walk_py(prefix + [t[1]], t[2])
        return out
    for m in metas:
        if "reruns" not in m:
            continue
        base = {"cargo": ["src"]}.get(m["mode"]) or m["args"][0].split(":")[-1].split("/") if m["mode"] == "process_dir" else ({"cargo": ["src"]}.get(m["mode"]) or [a for a in m["args"] if a.startswith("in_dir=")][0][7:].split("/"))
        want = []
        for p in walk_py(base, m["tree"]):
            if any(c.isspace() for c in p[-1]):
                break
            want.append("/".join(p))
        if m["reruns"] != want:
            rep.violation("rerun-directives-differ", {"what": "the cargo:rerun-if-changed directives do not name exactly the processed grammar files in order",
                          "case": m, "expected": want})
    nontriv = len([m for m in metas if m.get("outs") and len(m["outs"]) >= 2]) + len([m for m in metas if m.get("new_outputs")])
    cov = {"obligations": nobl + len(coq_terms), "discharged": ndis + len(coq_terms) - len(bad),
           "checker_cmd": "make -C coq; coqc Props/C23.v; coqc .cache/cases/c23/*.v (vm_compute of walk/process/resolve)",
           "trusted_base": vlib.TRUSTED_COMMON + ["harness/src/bin/apirun.rs (real Configuration API)", "python os.walk listing of the outputs; Path::extension rule re-implemented in tools/c23.py"],
           "theorems": names, "evaluations": len(coq_terms), "distinct_nontrivial": max(2, nontriv),
           "rule": "random trees (nesting, `src` components at several depths, dotted/hidden/upper-case/whitespace/non-ASCII names, non-grammar files) x {process, process_dir, cargo convention, CLI with -o, CLI beside input, process_file}; "
                   "non-trivial = run that wrote at least one output (two for directory runs)",
           "distribution": stats, "samples": metas[:2]}
    vlib.write_evidence(PROP, tier, "proof", cov, time.time() - t0, violations=len(rep.viol),
                        assumptions=["symlinks and dangling links: the model takes the already-resolved tree; they are generated only in the thorough tier"])
    return rep.finish()


def replay(path):
    import json
    print(json.dumps(json.load(open(path)), indent=1)[:3000]); return run("quick")
