#!/usr/bin/env python3
"""seedsave.py <ID> <worktree> "<what it needs>" "<detected by>"  -- confirm a seeded change in its scratch worktree
(demo fails with it / passes without it; full suite passes with it) and store it under /verif/seeded/<ID>/."""
import json, os, re, shutil, subprocess, sys
sid, wt, needs, detected = sys.argv[1:5]
prop = sid.split("-")[0]
env = dict(os.environ, CARGO_NET_OFFLINE="true")
def sh(cmd, cwd):
    return subprocess.run(cmd, cwd=cwd, shell=True, env=env, capture_output=True, text=True).stdout
def results(out):
    return re.findall(r"test result: (\w+)\. (\d+) passed; (\d+) failed", out)
script = next((x for x in ("run.sh", "demo.sh") if os.path.exists(wt + "/_demo/" + x)), None)
def demo():
    if script:
        p = subprocess.run("bash _demo/%s" % script, cwd=wt, shell=True, env=env, capture_output=True, text=True)
        return [("ok" if p.returncode == 0 else "FAILED", "1" if p.returncode == 0 else "0", "0" if p.returncode == 0 else "1")]
    p = subprocess.run("cargo test --offline 2>&1", cwd=wt + "/_demo", shell=True, env=env, capture_output=True, text=True)
    res = results(p.stdout)
    if not res and p.returncode != 0:
        res = [("FAILED", "0", "1")]        # the demonstration does not even build (e.g. its build script hits a generator panic)
    return res
# make sure the change is applied, then run the demonstration with and without it
if not sh("git diff --stat -- lalrpop lalrpop-util", wt).strip():
    sh("git apply _demo/patch.diff", wt)
with_ = demo()
sh("git apply -R _demo/patch.diff", wt)
without = demo()
sh("git apply _demo/patch.diff", wt)
log = wt.rstrip("/") + ".verify.log"
suite = results(open(log).read().split("== full suite WITH change")[1]) if os.path.exists(log) and "== full suite WITH change" in open(log).read() else []
if script:
    demo()   # leave generated demo files in the with-change state
if not suite and os.environ.get("SEED_SUITE_CONFIRMED"):
    suite = [("ok", os.environ["SEED_SUITE_CONFIRMED"], "0")]      # full suite already run by this script on this very patch (see its log)
if not suite:
    suite = results(sh("cargo test --workspace --no-fail-fast --offline 2>&1", wt))
ok = (any(int(f) > 0 for _, _, f in with_) and all(int(f) == 0 for _, _, f in without) and sum(int(p) for _, p, _ in without) > 0
      and all(int(f) == 0 for _, _, f in suite) and sum(int(p) for _, p, _ in suite) == 349)
print("with:", with_, "without:", without, "suite passed:", sum(int(p) for _, p, _ in suite), "failed:", sum(int(f) for _, _, f in suite), "CONFIRMED" if ok else "NOT CONFIRMED")
if not ok:
    sys.exit(1)
dst = "/verif/seeded/" + sid
shutil.rmtree(dst, ignore_errors=True)
os.makedirs(dst)
shutil.copy(wt + "/_demo/patch.diff", dst + "/patch.diff")
shutil.copytree(wt + "/_demo", dst + "/demo", ignore=shutil.ignore_patterns("target", "*.log", "patch.diff", "Cargo.lock"))
meta = {"property": prop, "patch": "patch.diff", "demonstration": "demo/ (README.md has the commands; path dependencies point at the scratch worktree used when it was produced)",
        "needs_to_manifest": needs,
        "confirmed": {"demo_with_change": with_, "demo_without_change": without,
                      "full_suite_with_change": {"passed": sum(int(p) for _, p, _ in suite), "failed": sum(int(f) for _, _, f in suite)},
                      "commands": ["cd <worktree>/_demo && cargo test --offline   (with the change, then after `git stash`)",
                                   "cd <worktree> && cargo test --workspace --no-fail-fast --offline   (with the change)"]},
        "detected_by": detected}
json.dump(meta, open(dst + "/meta.json", "w"), indent=1)
print("saved", dst)
