"""C24 — formatting options do not change the generated program (Rust token stream)."""
import os, time, itertools
import vlib, fsrun, rstok, gram

PROP = "C24"


# user code whose layout is part of its meaning: literals and comments spanning lines, copied by the
# generator in one piece (action code, use items, parameter and where clauses, extern blocks)
STRESS = [("multiline_literals", """use std::collections::{
    HashMap,
        HashSet,
};
grammar<'a>(names: &'a HashMap<
    String,
      usize>);

pub Banner: String = {
    "banner" <n:r"[a-z]+"> => {
        let text = "== banner ==
name:
   end";
        let raw = r#"line one
\ttabbed "quoted"
  line three"#;
        /* block comment
           spanning lines */
        format!("{}|{}|{}", text, raw, n) // trailing comment
    },
    "x" => String::from("a // not a comment
b /* nor this */
"),
    "y" <l:@L> <r:@R> =>? {
        if l == r {
            return Err(lalrpop_util::ParseError::User { error: "empty
span" });
        }
        Ok(format!("{}
{}", l, r))
    },
};
"""), ("multiline_extern", """grammar;
extern {
    type Location = usize;
    type Error = &'static str;
    enum Tok<
        'static> {
        "a" => Tok::A(
            "multi
line pattern"),
        "b" => Tok::B,
    }
}
pub S: Vec<&'static str> = {
    <v:S> "a" => { let mut v = v; v.push("one
  two"); v },
    "b" => vec![r"raw
    text"],
};
""")]


VERBATIM = {"multiline_literals": ['"== banner ==\nname:\n   end"', 'r#"line one\n\ttabbed "quoted"\n  line three"#', '"a // not a comment\nb /* nor this */\n"', '"empty\nspan"', '"{}\n{}"'],
            "multiline_extern": ['"one\n  two"', 'r"raw\n    text"']}


def run(tier):
    t0 = time.time()
    rep = vlib.Reporter(PROP)
    nobl, ndis, names = vlib.proof_obligations(PROP, rep)
    r = vlib.rng(24)
    lal = vlib.build_lalrpop()
    texts = [(n, fsrun.text_of(n)) for n in fsrun.TEXTS if fsrun.VALID[n]]
    gs = gram.corpus()
    extra = gs if tier == "thorough" else gs[:6] + gs[-4:]
    for g in extra:
        texts.append((g.name, g.render()))
        if not g.recovery:
            texts.append((g.name + "_asc", g.render(ascent=True)))
    # test grammars of the repository that need nothing but lalrpop-util
    for n in ["expr_intern_tok", "intern_tok", "unit", "match_section", "comments", "zero_length_match", "loc", "inline", "sub_ascent"]:
        p = os.path.join(vlib.REPO, "lalrpop-test", "src", n + ".lalrpop")
        if os.path.exists(p):
            texts.append(("repo_" + n, open(p).read()))
    texts += STRESS
    combos = list(itertools.product([False, True], repeat=3))   # comments, no-whitespace, report
    ncase = nbad = 0
    sizes = []
    for name, text in texts:
        outs = {}
        for (cm, nw, rp) in combos:
            d = fsrun.fresh_dir("fmt")
            open(os.path.join(d, "a.lalrpop"), "w").write(text)
            args = ["-f"] + (["--comments"] if cm else []) + (["--no-whitespace"] if nw else []) + (["--report"] if rp else []) + ["a.lalrpop"]
            code, o = fsrun.run_lalrpop(lal, args, d)
            if code != 0 or not os.path.exists(os.path.join(d, "a.rs")):
                outs[(cm, nw, rp)] = None
                continue
            outs[(cm, nw, rp)] = open(os.path.join(d, "a.rs")).read()
        base = outs[(False, False, False)]
        if base is None:
            continue
        for lit in VERBATIM.get(name, []):
            for k, src in outs.items():
                ncase += 1
                if src is not None and lit not in src:
                    nbad += 1
                    if nbad > 3:
                        continue
                    rep.violation("user-literal-not-verbatim", {"what": "a string literal spanning lines in user code does not reach the generated file verbatim (comments=%s, no-whitespace=%s, report=%s)" % k,
                                  "grammar": name, "grammar_text": text, "literal": lit})
        bt = rstok.tokens(base)
        sizes.append(len(bt))
        for k, src in outs.items():
            if k == (False, False, False):
                continue
            ncase += 1
            if src is None:
                nbad += 1
                rep.violation("option-changes-verdict", {"what": "the grammar is accepted with default options but rejected with %r (comments, no-whitespace, report)" % (k,), "grammar": name})
                continue
            t = rstok.tokens(src)
            if t != bt:
                nbad += 1
                i = next((j for j, (x, y) in enumerate(zip(t, bt)) if x != y), min(len(t), len(bt)))
                if nbad <= 3:
                    rep.violation("token-stream-differs", {"what": "the Rust token stream of the generated file changes with the formatting options (comments=%s, no-whitespace=%s, report=%s)" % k,
                                  "grammar": name, "grammar_text": text[:2000], "first_difference_at_token": i, "default_tokens": bt[max(0, i - 6):i + 6], "option_tokens": t[max(0, i - 6):i + 6]})
            if k == (False, False, True) and src != base:
                nbad += 1
                rep.violation("report-changes-output", {"what": "enabling the report changes the bytes of the generated .rs file", "grammar": name})
    cov = {"obligations": nobl + ncase, "discharged": ndis + ncase - nbad,
           "checker_cmd": "make -C coq; coqc Props/C24.v; lalrpop with the 8 option combinations; tools/rstok.py token comparison",
           "trusted_base": vlib.TRUSTED_COMMON + ["tools/rstok.py (Rust lexer: comments, whitespace, string/raw/char literals, lifetimes)"],
           "theorems": names, "evaluations": ncase, "distinct_nontrivial": ncase,
           "rule": "every grammar of the build corpus, the LR corpus (table-driven and recursive ascent) and self-contained repository test grammars x the 7 non-default combinations of "
                   "--comments/--no-whitespace/--report; the token stream (comments and whitespace dropped) must equal the default output's; grammars whose user code has string literals, raw strings and comments spanning lines (action code, extern patterns, use items, parameters): each such literal must also occur verbatim in all 8 outputs",
           "distribution": {"grammars": len(texts), "tokens_per_file": {"min": min(sizes), "max": max(sizes)} if sizes else {}},
           "samples": [{"grammar": texts[0][0], "combos": 7}]}
    vlib.write_evidence(PROP, tier, "proof", cov, time.time() - t0, violations=len(rep.viol),
                        assumptions=["token equality is judged by a small Rust lexer, not by rustc"])
    return rep.finish()


def replay(path):
    import json
    print(json.dumps(json.load(open(path)), indent=1)[:3000]); return run("quick")
