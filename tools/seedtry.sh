#!/bin/bash
# usage: seedtry.sh <name> <patch.diff> <CHECK-ID> [tier]
# applies a seeded change to a fresh scratch worktree of /repo HEAD (never to /repo itself), runs the
# check against it, prints the violation keys, restores the evidence file and removes the worktree.
set -u
name=$1; patch=$2; id=$3; tier=${4:-quick}
wt=/tmp/seedtry/$name
rm -rf "$wt"; git -C /repo worktree prune
git -C /repo worktree add -q --detach "$wt" HEAD || exit 2
if ! git -C "$wt" apply "$patch"; then echo "PATCH DOES NOT APPLY"; git -C /repo worktree remove --force "$wt"; exit 3; fi
cd /verif
cp evidence/$id.json /tmp/seedtry_$id.ev.bak 2>/dev/null
rm -f replay/$id-*.json
VERIF_REPO=$wt timeout 3000 ./check $id --tier $tier 2>&1 | grep -v KNOWN | cut -c1-160 | tail -4
for f in replay/$id-*.json; do [ -f "$f" ] && python3 -c "
import json; d=json.load(open('$f')); print('  KEY', d.get('key'), '|', str(d.get('what'))[:220])"; done
cp /tmp/seedtry_$id.ev.bak evidence/$id.json 2>/dev/null
rm -f replay/$id-*.json
h=$(python3 -c "import hashlib;print(hashlib.sha1('$wt'.encode()).hexdigest()[:8])")
rm -rf /verif/.cache/target-$h /verif/.cache/harness-target-$h /verif/.cache/cgb-target-target-$h /verif/.cache/sgb-target-target-$h
git -C /repo worktree remove --force "$wt"
