"""Runs the real lalrpop binary on temporary trees: histories of edits/builds (C21), crash points
through RLIMIT_FSIZE (C22), directory trees and configurations (C23), option combinations (C24)."""
import os, resource, shutil, subprocess
import vlib

# valid texts first (the Coq instantiation of C21 says: text k is valid iff k < NVALID)
TEXTS = ["g0", "g1", "g2", "g3", "g3_crlf", "bad_syntax", "bad_conflict"]
VALID = {"g0": True, "g1": True, "g2": True, "g3": True, "g3_crlf": True, "bad_syntax": False, "bad_conflict": False}
NVALID = 5
# texts that differ from each other only in their line terminators
SIBLINGS = {"g3": ["g3_crlf"], "g3_crlf": ["g3"]}


def text_of(name):
    return open(os.path.join(vlib.ROOT, "corpus", "build", name + ".lalrpop"), newline="").read()


def run_lalrpop(lal, args, cwd, fsize=None, env=None, timeout=1200):
    def pre():
        if fsize is not None:
            resource.setrlimit(resource.RLIMIT_FSIZE, (fsize, fsize))
    e = dict(os.environ)
    for k in list(e):
        if k.startswith("CARGO_FEATURE_"):
            del e[k]
    if env:
        e.update(env)
    p = subprocess.run([lal] + args, cwd=cwd, stdout=subprocess.PIPE, stderr=subprocess.STDOUT, text=True, errors="replace",
                       preexec_fn=pre, timeout=timeout, env=e)
    return p.returncode, p.stdout


def fresh_dir(name):
    d = os.path.join(vlib.CACHE, "fs", name)
    shutil.rmtree(d, ignore_errors=True)
    os.makedirs(d)
    return d


def reference_outputs(lal):
    """forced build of every corpus text in a scratch dir -> {name: bytes or None}"""
    d = fresh_dir("ref")
    ref = {}
    for n in TEXTS:
        open(os.path.join(d, "a.lalrpop"), "w").write(text_of(n))
        if os.path.exists(os.path.join(d, "a.rs")):
            os.remove(os.path.join(d, "a.rs"))
        code, out = run_lalrpop(lal, ["-f", "a.lalrpop"], d)
        ref[n] = open(os.path.join(d, "a.rs"), "rb").read() if os.path.exists(os.path.join(d, "a.rs")) else None
        if (ref[n] is not None) != VALID[n] or "panicked" in out:
            raise vlib.BuildBroken("corpus grammar %s: unexpected verdict (exit %d)\n%s" % (n, code, out[-800:]))
    return ref
