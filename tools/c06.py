"""C06 — location tracking follows token positions identically in both back ends (compiled parsers
with gapped token spans, empty productions, @L/@R probes; model side: LR/Driver.v spans via drv)."""
import time
import vlib, gram, lrengine, lrcheck, cgb, cgcheck

PROP = "C06"


def expected_spans(tree, toks):
    """post-order list of (label, lo, hi, kids_spans) per the property's statement"""
    out = []
    n = len(toks)

    def pos(i):
        return toks[i]["lo"] if i < n else (toks[n - 1]["hi"] if n else 0)

    def go(nd, i):
        if "leaf" in nd:
            return (nd["leaf"]["lo"], nd["leaf"]["hi"]), i + 1
        spans = []
        here = pos(i)
        for k in nd["kids"]:
            sp, i = go(k, i)
            spans.append(sp)
        sp = (spans[0][0], spans[-1][1]) if spans else (here, here)
        out.append((nd["label"], sp[0], sp[1], spans, here))
        return sp, i
    go(tree, 0)
    return out


def judge_one(d, toks):
    if d["kind"] != "ok":
        return None
    exp = expected_spans(d["tree"], toks)
    # group the event log: probes belong to the action that follows them
    groups, cur = [], []
    for ev in d["events"]:
        if ev[0] == "B":
            cur.append(ev.split(":")[1:])
        elif ev[0] == "A":
            groups.append((ev.split(":")[1:], cur)); cur = []
    if len(groups) != len(exp):
        return ("span-log-mismatch", "number of actions differs from the number of tree nodes")
    for (a, probes), (label, lo, hi, kids, here) in zip(groups, exp):
        if a[0] != label:
            return ("span-log-mismatch", "actions are not in post-order")
        if (int(a[1]), int(a[2])) != (lo, hi):
            return ("wrong-span", "node %s has span (%s,%s), expected (%d,%d) [first child start, last child end; empty: zero width at the next token / end of input]" % (label, a[1], a[2], lo, hi))
        for (lb, j, k, v) in probes:
            j = int(j)
            if k == "L":
                want = kids[j][0] if j < len(kids) else (kids[j - 1][1] if j > 0 else here)
            else:
                want = kids[j - 1][1] if j > 0 else (kids[j][0] if j < len(kids) else here)
            if int(v) != want:
                return ("wrong-lookaround", "@%s at position %d of %s yields %s, expected %d" % (k, j, label, v, want))
    return None


MACRO_G = """grammar;
Sp<T>: (usize, T, usize) = <l:@L> <t:T> <r:@R> => (l, t, r);
Gap<A, B>: (usize, usize, usize) = A <m:@R> <q:@L> B <e:@R> => (m, q, e);
Opt<T>: (usize, usize) = <l:@L> T? <r:@R> => (l, r);
pub S: Vec<(usize, String, usize)> = { <v:S> <x:Sp<Id>> => { let mut v = v; v.push(x); v }, => vec![] };
Id: String = r"[a-z]+" => <>.to_string();
pub P: (usize, usize, usize) = Gap<"(", ")">;
pub O: ((usize, usize), (usize, String, usize)) = <Opt<"!">> <Sp<Id>>;
"""
# (parser, input, expected Debug text): token spans are byte offsets; @R is the end of what precedes, @L the
# start of what follows -- also inside macro definitions
MACRO_CASES = [
    ("S", "ab  cd e", 'OK [(0, "ab", 2), (4, "cd", 6), (7, "e", 8)]'),
    ("S", "  x", 'OK [(2, "x", 3)]'),
    ("P", "(   )", "OK (1, 4, 5)"),
    ("P", "()", "OK (1, 1, 2)"),
    ("O", "!  ab", 'OK ((0, 1), (3, "ab", 5))'),
    ("O", "  ab", 'OK ((2, 2), (2, "ab", 4))'),
]


def macro_tier(rep, lal):
    """look-arounds written inside macro definitions (string-input parsers, both back ends)"""
    import sgb
    units = []
    for v in ("t", "a"):
        text = MACRO_G if v == "t" else MACRO_G.replace("grammar;", "#[recursive_ascent] grammar;", 1)
        st, rs, out = sgb.generate(lal, "c06mac" + v, text)
        if st != "ok":
            rep.violation("macro-lookaround-grammar-rejected", {"what": "a grammar with @L/@R inside macro definitions was not turned into a parser", "grammar_text": MACRO_G, "output": out[-1500:]})
            return 0, 1
        units.append({"name": "c06mac" + v, "rs": rs, "parsers": ["S", "P", "O"]})
    ok, out, binary = sgb.build(units)
    if not ok:
        rep.violation("generated-code-does-not-compile", {"what": "rustc rejects the parser generated for look-arounds inside macros", "rustc": out[-2500:]})
        return 0, 1
    cases = [(u["name"], pz, inp) for u in units for (pz, inp, want) in MACRO_CASES]
    res = sgb.run(binary, cases)
    nb = 0
    for (m, pz, inp), got, want in zip(cases, res, [w for u in units for (_, _, w) in MACRO_CASES]):
        if got != want:
            nb += 1
            if nb <= 2:
                rep.violation("lookaround-inside-macro" + (":ascent" if m.endswith("a") else ":table"),
                              {"what": "@L/@R written inside a macro definition give %s on %r, the documented values are %s" % (got, inp, want),
                               "grammar_text": MACRO_G, "parser": pz, "input": inp, "got": got, "want": want})
    return len(cases), nb


def run(tier):
    t0 = time.time()
    rep = vlib.Reporter(PROP)
    nobl, ndis, names = vlib.proof_obligations(PROP, rep)
    r = vlib.rng(6)
    lal = vlib.build_lalrpop()
    gs = [g for g in gram.corpus() if not g.recovery]
    nrand = 16 if tier == "quick" else 150
    gs += [gram.random_grammar(r, i) for i in range(nrand)]
    ok, out, binary, units = cgcheck.build_corpus(rep, lal, gs, probes=1000 + vlib.seed())
    if not ok:
        rep.violation("generated-code-does-not-compile", {"what": "rustc rejects a generated parser of the corpus", "rustc": out[-3000:]})
        vlib.write_evidence(PROP, tier, "other", {"explanation": "generated parsers do not compile", "evaluations": 1, "distinct_nontrivial": 0}, time.time() - t0, 1)
        return rep.finish()
    cases, meta = [], []
    per = 14 if tier == "quick" else 40
    for u in units:
        g = u["g"]
        for st in g.pubs:
            if st not in g.min_height():
                continue
            for n in range(per):
                w = g.random_sentence(r, st, depth=r.randint(1, 7))
                items = lrengine.tok_items(g, {"tnames": ['"%s"' % t for t in g.terms]}, w, r)
                cases.append((u["name"], st, items, None, [])); meta.append(u)
    res = cgb.run(binary, cases)
    nmac, macbad = macro_tier(rep, lal)
    nbad = macbad
    nempty = nprobe = 0
    for (m, st, items, _, _), d, u in zip(cases, res, meta):
        toks = [{"lo": it[3], "hi": it[4]} for it in items]
        why = judge_one(d, toks)
        if d["kind"] == "ok":
            nprobe += len(d["probes"])
            nempty += sum(1 for a in d["spans"] if a[1] == a[2])
        if why:
            nbad += 1
            if nbad <= 3:
                rep.violation(why[0] + (":ascent" if u["variant"] == "a" else ":table"), {
                    "what": why[1], "back_end": "recursive ascent" if u["variant"] == "a" else "table-driven",
                    "grammar": u["g"].name, "grammar_text": open(u["rs"].replace("g.rs", "g.lalrpop")).read(), "start": st,
                    "items": [list(x) for x in items], "result": cgcheck.norm_cgb(d), "probes": d["probes"]})
    distinct = len({(c[0], tuple(x[1] for x in c[2])) for c, d in zip(cases, res) if d["kind"] == "ok" and any(a[1] == a[2] for a in d["spans"])})
    cov = {"obligations": nobl + len(cases), "discharged": ndis + len(cases) - nbad,
           "checker_cmd": "make -C coq; coqc Props/C06.v; cargo build harness/cgb; run; judge spans",
           "trusted_base": vlib.TRUSTED_COMMON + ["rustc", "harness/cgb/src/rt.rs"],
           "theorems": names, "evaluations": len(cases), "distinct_nontrivial": distinct,
           "macro_lookaround_cases": nmac, "rule": "grammars (corpus + random, many empty productions), both back ends, @L/@R probes sprinkled between symbols; accepted inputs with "
                   "distinct gapped token spans incl. a leading gap; non-trivial = accepted input whose tree has at least one empty (zero-width) node",
           "distribution": {"parsers": len(units), "accepted": sum(1 for d in res if d["kind"] == "ok"), "empty_nodes": nempty, "lookaround_probes": nprobe},
           "samples": [{"grammar": meta[0]["g"].name, "items": [list(x) for x in cases[0][2]], "result": cgcheck.norm_cgb(res[0])}]}
    vlib.write_evidence(PROP, tier, "proof", cov, time.time() - t0, violations=len(rep.viol),
                        assumptions=["spans are observed through @L/@R bindings of compiled parsers"])
    return rep.finish()


def replay(path):
    import json
    print(json.dumps(json.load(open(path)), indent=1)[:3000]); return run("quick")
