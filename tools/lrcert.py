"""Untrusted certificate generator: from translated tables, recompute LR(1) items with lookaheads by
propagation over the table graph, nullable/first, ranks and the closed-sequence fuel.  Its output is
checked by the Gallina validator (LR/Validator.v) inside Coq; nothing here is trusted."""
EOF_ = "EOF"


def analyse(t):
    prods = t["prods"]
    nterm, nS, nnt = t["nterm"], t["nstates"], t["nnt"]
    A, E, G = t["action"], t["eof"], t["goto"]

    def act(s, a):
        return E[s] if a == EOF_ else A[s * nterm + a]

    by_lhs = {}
    for p, (l, r) in enumerate(prods):
        by_lhs.setdefault(l, []).append(p)
    nullable = set()
    first = {n: set() for n in range(nnt)}
    ch = True
    while ch:
        ch = False
        for p, (l, r) in enumerate(prods):
            alln = True
            for (k, x) in r:
                if k == "T":
                    if x not in first[l]:
                        first[l].add(x); ch = True
                    alln = False
                    break
                new = first[x] - first[l]
                if new:
                    first[l] |= new; ch = True
                if x not in nullable:
                    alln = False
                    break
            if alln and l not in nullable:
                nullable.add(l); ch = True

    def first_word(w, la):
        out = set()
        for (k, x) in w:
            if k == "T":
                out.add(x); return out
            out |= first[x]
            if x not in nullable:
                return out
        return out | la

    items = [dict() for _ in range(nS)]
    start = t["start"]
    items[0][(start, 0)] = {EOF_}
    work = True

    def add(s, it, la):
        cur = items[s].setdefault(it, set())
        if not la <= cur:
            cur |= la; return True
        return False
    while work:
        work = False
        for s in range(nS):
            for (p, d), la in list(items[s].items()):
                r = prods[p][1]
                if d < len(r):
                    k, x = r[d]
                    if k == "T":
                        a = act(s, x)
                        if a > 0 and a - 1 < nS:
                            work |= add(a - 1, (p, d + 1), set(la))
                    else:
                        s2 = G[x][s]
                        if s2 < nS:
                            work |= add(s2, (p, d + 1), set(la))
                        la2 = first_word(r[d + 1:], la)
                        for q in by_lhs.get(x, []):
                            work |= add(s, (q, 0), set(la2))
    # closure ranks (BFS inside each state)
    ranks = [dict() for _ in range(nS)]
    for s in range(nS):
        rk = {}
        frontier = [it for it in items[s] if it[1] > 0]
        if s == 0:
            rk[(start, 0)] = 0
            frontier.append((start, 0))
        depth = {it: 0 for it in frontier}
        while frontier:
            nxt = []
            for (p, d) in frontier:
                r = prods[p][1]
                if d < len(r) and r[d][0] == "N":
                    for q in by_lhs.get(r[d][1], []):
                        if (q, 0) not in rk and (q, 0) in items[s]:
                            rk[(q, 0)] = (depth[(p, d)] if d == 0 else 0) + 1
                            depth[(q, 0)] = rk[(q, 0)]
                            nxt.append((q, 0))
            frontier = nxt
        ranks[s] = rk
    # productivity ranks
    prank = {}
    ch = True
    err = nterm - 1 if t["recovery"] else None
    while ch:
        ch = False
        for p, (l, r) in enumerate(prods):
            if any(k == "T" and x == err for k, x in r):
                continue
            if all(k == "T" or x in prank for k, x in r):
                v = 1 + max([prank[x] for k, x in r if k == "N"] + [0])
                if l not in prank or v < prank[l]:
                    prank[l] = v; ch = True
    # closed sequences: longest
    def closed_len(q, a, cap=5000):
        local, n = [], 0
        while n < cap:
            n += 1
            top = local[-1] if local else q
            v = act(top, a)
            if v >= 0:
                return n
            p = -v - 1
            if p == start or p >= len(prods):
                return n
            l, r = prods[p]
            k = len(r)
            if k > len(local):
                return n
            local = local[:len(local) - k]
            base = local[-1] if local else q
            local.append(G[l][base])
        return None
    F = 2
    nonterm = []
    for s in range(nS):
        for a in [EOF_] + list(range(nterm)):
            n = closed_len(s, a)
            if n is None:
                nonterm.append((s, a))
            else:
                F = max(F, n + 1)
    return {"items": items, "ranks": ranks, "nullable": nullable, "first": first, "prank": prank, "F": F,
            "nonterminating": nonterm}


def la_coq(a):
    return "None" if a == EOF_ else "Some %d" % a


def to_coq(t, c):
    rows = []
    for s in range(t["nstates"]):
        its = []
        for (p, d), la in sorted(c["items"][s].items()):
            las = sorted(la, key=lambda a: -1 if a == EOF_ else a)
            its.append("{| i_prod := %d; i_dot := %d; i_rank := %d; i_la := [%s] |}" % (
                p, d, c["ranks"][s].get((p, d), 0), "; ".join(la_coq(a) for a in las)))
        rows.append("[" + "; ".join(its) + "]")
    nnt = t["nnt"]
    return ("{| c_items := [%s];\n   c_nullable := [%s]; c_first := [%s]; c_prank := [%s]; c_F := %d |}" % (
        ";\n     ".join(rows),
        "; ".join("true" if n in c["nullable"] else "false" for n in range(nnt)),
        "; ".join("[" + "; ".join(str(x) for x in sorted(c["first"][n])) + "]" for n in range(nnt)),
        "; ".join(str(c["prank"].get(n, 0)) for n in range(nnt)), c["F"]))
