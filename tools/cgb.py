"""Compiled-parser tier: builds the parsers lalrpop generates (table-driven and recursive ascent) into
one crate with rustc and runs them on token sequences.  Output lines are parsed into the same python
structures as harness drv's, with node labels "NT#alt"."""
import os, re, shutil, hashlib, subprocess
import vlib, lrengine

CGB = os.path.join(vlib.ROOT, "harness", "cgb")


_LOCK = None


def _lock():
    """one check at a time may use this crate (its sources are rewritten per run): hold an exclusive lock
    until the process exits"""
    global _LOCK
    if _LOCK is None:
        import fcntl
        os.makedirs(vlib.CACHE, exist_ok=True)
        _LOCK = open(os.path.join(vlib.CACHE, "cgb.lock"), "w")
        fcntl.flock(_LOCK, fcntl.LOCK_EX)


def build(units):
    """units: list of dict(name, rs (path of generated .rs), parsers [start names]).
    Returns path of the binary.  The crate is rebuilt from scratch into its own target dir key so
    that stale modules never linger."""
    _lock()
    gen = os.path.join(CGB, "src", "gen")
    shutil.rmtree(gen, ignore_errors=True)
    os.makedirs(gen)
    main = ["#![allow(warnings)]", "pub mod rt;"]
    arms = []
    for u in units:
        shutil.copy(u["rs"], os.path.join(gen, u["name"] + ".rs"))
        main.append('#[path = "gen/%s.rs"] mod %s;' % (u["name"], u["name"]))
        for pz in u["parsers"]:
            arms.append('        ("%s", "%s") => rt::run_case(items, orc, |it| %s::%sParser::new().parse(it)),'
                        % (u["name"], pz, u["name"], pz))
    main.append("""
fn main() {
    use std::io::{BufRead, Write};
    std::panic::set_hook(Box::new(|_| {}));
    let stdin = std::io::stdin();
    let out = std::io::stdout();
    let mut out = out.lock();
    for line in stdin.lock().lines() {
        let line = line.unwrap();
        let mut f = line.splitn(4, '\\t');
        let (m, p, items, orc) = (f.next().unwrap(), f.next().unwrap(), f.next().unwrap_or(""), f.next().unwrap_or(""));
        let r = match (m, p) {
%s
            _ => "NOPARSER".to_string(),
        };
        writeln!(out, "{}", r).unwrap();
    }
}
""" % "\n".join(arms))
    with open(os.path.join(CGB, "src", "main.rs"), "w") as w:
        w.write("\n".join(main))
    lock = os.path.join(CGB, "Cargo.lock")
    if not os.path.exists(lock):
        shutil.copy(os.path.join(vlib.REPO, "Cargo.lock"), lock)
    env = vlib.cargo_env()
    env["CARGO_TARGET_DIR"] = os.path.join(vlib.CACHE, "cgb-target" + ("" if vlib.REPO == "/repo" else "-" + os.path.basename(vlib.TARGET)))
    # the crate path-depends on /repo/lalrpop-util; a scratch tree given through VERIF_REPO (seeded-change
    # trials) is substituted for the duration of the build only (the exclusive lock is held)
    toml_path = os.path.join(CGB, "Cargo.toml")
    toml = open(toml_path).read()
    try:
        if vlib.REPO != "/repo":
            open(toml_path, "w").write(toml.replace('"/repo/', '"%s/' % vlib.REPO))
        p = vlib.sh(["cargo", "build", "--offline"], cwd=CGB, env=env, check=False, timeout=3000)
    finally:
        open(toml_path, "w").write(toml)
    return p.returncode == 0, p.stdout, os.path.join(env["CARGO_TARGET_DIR"], "debug", "cgb")


def item_txt(it, t):
    if it[0] == "k":
        ch = chr(ord("a") + it[1]) if it[1] >= 0 else "?"
        return "k:%s:%d:%d:%d" % (ch, it[2], it[3], it[4])
    return "u:%d" % it[1]


def run(binary, cases):
    """cases: list of (module, parser, items(list of tuples), table, oracle [(label,id,e)])"""
    inp = "".join("%s\t%s\t%s\t%s\n" % (m, pz, " ".join(item_txt(i, t) for i in items),
                                       " ".join("%s:%d:%d" % o for o in orc)) for (m, pz, items, t, orc) in cases)
    p = vlib.sh([binary], input=inp, check=False, timeout=1200)
    if p.returncode != 0:
        raise vlib.BuildBroken("cgb binary failed: " + p.stdout[-2000:])
    lines = p.stdout.rstrip("\n").split("\n") if cases else []
    if len(lines) != len(cases):
        raise vlib.BuildBroken("cgb returned %d lines for %d cases" % (len(lines), len(cases)))
    return [parse_line(l) for l in lines]


# ---------------------------------------------------------------- output parsing

class _P:
    def __init__(self, s):
        self.s, self.i = s, 0

    def eat(self, lit):
        assert self.s.startswith(lit, self.i), (lit, self.s[self.i:self.i + 40])
        self.i += len(lit)

    def until(self, chars):
        j = self.i
        while self.s[j] not in chars:
            j += 1
        v = self.s[self.i:j]
        self.i = j
        return v

    def tok(self):
        self.eat("k(")
        c = self.s[self.i]; self.i += 1
        self.eat(",")
        a = self.until(","); self.eat(",")
        b = self.until(","); self.eat(",")
        d = self.until(")"); self.eat(")")
        return {"idx": ord(c) - ord("a") if c != "?" else -1, "id": int(a), "lo": int(b), "hi": int(d)}

    def explist(self):
        self.eat("[")
        out = []
        while self.s[self.i] != "]":
            if self.s[self.i] == " ":
                self.i += 1
            if self.s[self.i] == '"':
                j = self.s.index('"', self.i + 1)
                out.append(self.s[self.i:j + 1]); self.i = j + 1
            else:
                out.append(self.until(" ]"))
        self.eat("]")
        return out

    def err(self):
        k = self.s[self.i:self.i + 2]; self.i += 3
        if k == "UT":
            lo = self.until(","); self.eat(","); t = self.tok(); self.eat(","); hi = self.until(";"); self.eat(";")
            e = {"e": "UnrecognizedToken", "token": t, "span": (int(lo), int(hi)), "expected": self.explist()}
        elif k == "UE":
            l = self.until(";"); self.eat(";")
            e = {"e": "UnrecognizedEof", "loc": int(l), "expected": self.explist()}
        elif k == "XT":
            lo = self.until(","); self.eat(","); t = self.tok(); self.eat(","); hi = self.until(")")
            e = {"e": "ExtraToken", "token": t, "span": (int(lo), int(hi))}
        elif k == "US":
            e = {"e": "User", "error": int(self.until(")"))}
        else:
            e = {"e": "InvalidToken", "loc": int(self.until(")"))}
        self.eat(")")
        return e

    def tree(self):
        c = self.s[self.i]
        if c == "k":
            return {"leaf": self.tok()}
        if c == "E":
            self.eat("E(")
            lo = self.until(","); self.eat(","); hi = self.until(","); self.eat(",")
            e = self.err(); self.eat(",[")
            dropped = []
            while self.s[self.i] != "]":
                if self.s[self.i] == " ":
                    self.i += 1
                self.until(":"); self.eat(":"); dropped.append(self.tok()); self.eat(":"); self.until(" ]")
            self.eat("])")
            return {"err": e, "dropped": dropped, "lo": int(lo), "hi": int(hi)}
        if c == "N":
            self.eat("N(")
            lb = self.until(","); self.eat(","); lo = self.until(","); self.eat(","); hi = self.until(","); self.eat(",[")
            kids = self.kids()
            self.eat(")")
            return {"label": lb, "lo": int(lo), "hi": int(hi), "kids": kids}
        if c == "V":
            self.eat("V([")
            kids = self.kids()
            self.eat(")")
            return {"vals": kids}
        if c == "I":
            self.eat("I("); v = self.until(")"); self.eat(")")
            return {"int": int(v)}
        self.eat("U")
        return {"unit": True}

    def kids(self):
        out = []
        while self.s[self.i] != "]":
            if self.s[self.i] == " ":
                self.i += 1
            out.append(self.tree())
        self.eat("]")
        return out


def parse_line(line):
    res, log = line.split(" | ", 1) if " | " in line else (line, "")
    d = {}
    if res.startswith("OK "):
        d = {"kind": "ok", "tree": _P(res[3:]).tree()}
    elif res.startswith("ERR "):
        d = {"kind": "err", "err": _P(res[4:]).err()}
    elif res == "PANIC":
        d = {"kind": "panic"}
    else:
        d = {"kind": res}
    ev = [x for x in log.split(",") if x]
    d["pulled"] = sum(1 for x in ev if x.startswith("P:"))
    d["events"] = ev
    d["acts"] = [x.split(":")[1] for x in ev if x[0] in "AF"]
    d["spans"] = [tuple(x.split(":")[1:]) for x in ev if x[0] == "A"]
    d["probes"] = [tuple(x.split(":")[1:]) for x in ev if x[0] == "B"]
    return d
