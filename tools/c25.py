"""C25 — generated code is hygienic: renaming user identifiers changes nothing.
Theorems (Props/C25.v): the prefix search of parse_grammar terminates and yields a run of underscores
that does not occur in the grammar text, hence no name built from the prefix equals anything that
occurs in the text (every user identifier does).
Tie / search, on every run: grammars x injective renamings of nonterminals and bindings into
adversarial identifiers (names lalrpop derives internally, `__`-prefixed names, names of the form
<nonterminal><level>): lalrpop's verdict, rustc's verdict and every parse result (labels mapped back)
must be those of the original grammar."""
import re, time, json
import vlib, gram, lrengine, lrcheck, cgb, cgcheck, c12

PROP = "C25"
NT_POOL = ["__0", "__1", "__S", "__Symbol", "__Nonterminal", "__parse__S", "__StateMachine", "__action0", "__action1", "__reduce0", "__state", "__lookahead",
           "__tokens", "__sym0", "__sym1", "__Variant0", "__Variant1", "__ToTriple", "__TERMINAL", "__ACTION", "__goto", "__token_to_integer", "__symbols", "__start",
           "__end", "__lookbehind", "__temp0", "__nt", "__result", "__next_state", "__pop_Variant0", "__simulate_reduce", "__expected_tokens", "__intern_token",
           "__lalrpop_util", "__ascent", "__custom0", "__GT", "___", "____x", "___0", "___1", "___S", "___Symbol", "___action0", "___lookahead", "___sym0", "___parse___S", "____0", "Parser", "SParser", "Token", "__Token", "__ParseError", "__Matcher"]
BIND_POOL = ["__0", "__1", "__2", "__3", "__4", "__5", "__sym0", "__sym1", "__sym2", "__lookahead", "__lookbehind", "__start0", "__end0", "__temp0", "__temp1",
             "__nt", "__symbols", "__states", "__action", "__tokens", "___", "___0", "___1", "___2", "___lookahead", "___lookbehind", "___sym0", "____0", "__result", "__v", "__e", "v", "e", "__start", "__end"]


def rename_g(g, ntmap):
    rules = {}
    for nt, alts in g.rules.items():
        rules[ntmap[nt]] = [([ntmap.get(s, s) for s in a], sorted(g.flags[(nt, i)])) for i, a in enumerate(alts)]
    return gram.G(g.name + "_ren", g.terms, rules, pubs=[ntmap[p] for p in g.pubs])


class Renamed:
    """a gram.G (or c12.Layout) whose rendered text has its binding names replaced"""

    def __init__(self, base, bindmap, name):
        self.base, self.bindmap, self.name = base, bindmap, name
        self.pubs, self.recovery, self.rules, self.terms = base.pubs, base.recovery, base.rules, base.terms

    def render(self, lalr=False, ascent=False, probes=0):
        t = self.base.render(lalr=lalr, ascent=ascent)
        # binding names only: never inside string literals (a terminal may be called "r" or "l")
        parts = re.split(r'("(?:[^"\\]|\\.)*")', t)
        for i in range(0, len(parts), 2):
            parts[i] = re.sub(r"\b(c\d+|l|r|el\d+|er\d+)\b", lambda m: self.bindmap.get(m.group(1), m.group(1)), parts[i])
        return "".join(parts)


def unlabel(n, inv):
    if "label" in n:
        nt, i = n["label"].rsplit("#", 1)
        return {"label": "%s#%s" % (inv.get(nt, nt), i), "lo": n["lo"], "hi": n["hi"], "kids": [unlabel(k, inv) for k in n["kids"]]}
    if "vals" in n:
        return {"vals": [unlabel(k, inv) for k in n["vals"]]}
    return n


def norm(d, inv):
    out = {"kind": d["kind"]}
    if d["kind"] == "ok":
        out["tree"] = unlabel(d["tree"], inv)
    elif d["kind"] == "err":
        e = dict(d["err"]); e.pop("span", None)
        out["err"] = e
    out["acts"] = ["%s#%s" % (inv.get(a.rsplit("#", 1)[0], a.rsplit("#", 1)[0]), a.rsplit("#", 1)[1]) if "#" in a else a for a in d["acts"]]
    return out


def run(tier):
    t0 = time.time()
    rep = vlib.Reporter(PROP)
    nobl, ndis, names = vlib.proof_obligations(PROP, rep)
    r = vlib.rng(25)
    lal = vlib.build_lalrpop()
    base = [g for g in gram.corpus() if len(g.nts) <= 6] + gram.inline_corpus()
    base += [gram.random_grammar(r, i, recovery=(i % 5 == 0), fallible=(i % 4 == 0)) for i in range(6 if tier == "quick" else 80)]
    lays = [c12.gen_layout(r, 500 + i) for i in range(4 if tier == "quick" else 40)]
    pairs = []        # (original, renamed, inverse nt map, description)
    nren = 1 if tier == "quick" else 3
    for g in base:
        for k in range(nren):
            pool = r.sample(NT_POOL, len(g.nts))
            if k == 0 and len(g.nts) >= 2:
                pool[1] = pool[0] + "1"        # looks like a precedence level name of the first one
            ntmap = dict(zip(g.nts, pool))
            bpool = r.sample(BIND_POOL, 12)
            bmap = {"l": bpool[0], "r": bpool[1]}
            for j in range(10):
                bmap["c%d" % j] = bpool[2 + j] if j < 10 and 2 + j < len(bpool) else "__b%d" % j
            rg = rename_g(g, ntmap)
            pairs.append((g, Renamed(rg, bmap, rg.name + str(k)), {v: k_ for k_, v in ntmap.items()}, {"nonterminals": ntmap, "bindings": bmap}))
    for lay in lays:
        # precedence layouts: rename a helper nonterminal to a level name of E (E<level>)
        if not lay.groups:
            continue
        lv = sorted(set(a["prec"] for a in lay.alts if a["prec"] is not None))
        if len(lv) < 2:
            continue
        target = "E%d" % lv[0]
        txt = lay.render()
        ren = re.sub(r"\bP0\b", target, txt)

        class T:
            def __init__(s, name, text, base):
                s.name, s.text, s.pubs, s.recovery, s.rules, s.terms = name, text, base.pubs, False, {}, base.terms

            def render(s, lalr=False, ascent=False, probes=0):
                return s.text
        pairs.append((T(lay.name, txt, lay), T(lay.name + "_ren", ren, lay), {target: "P0"}, {"nonterminals": {"P0": target}, "bindings": {}}))
    dist = {"pairs": len(pairs), "both_ok": 0, "both_rejected": 0, "words": 0}
    ncase = nbad = 0

    def bad(key, obj):
        nonlocal nbad
        if key in rep.known:
            rep.violation(key, obj); return
        nbad += 1
        if nbad <= 3:
            rep.violation(key, obj)
    keep = []
    for g, rg, inv, desc in pairs:
        ncase += 1
        s1, rs1, o1 = lrengine.generate(lal, g, "lane")
        s2, rs2, o2 = lrengine.generate(lal, rg, "lane")
        if s1 != s2:
            key = "verdict-changes-under-renaming"
            if "two nonterminals declared with the name" in o2 and any(re.fullmatch(r".*\D\d+", v) for v in desc["nonterminals"].values()):
                key = "precedence-level-name-clash"
            bad(key, {"what": "lalrpop says %s for the grammar and %s after renaming" % (s1, s2), "renaming": desc, "grammar_text": g.render(), "renamed_grammar_text": rg.render(),
                      "output_renamed": o2[-700:], "output_original": o1[-300:]})
            continue
        if s1 == "ok":
            dist["both_ok"] += 1
            keep.append((g, rg, inv, desc))
        else:
            dist["both_rejected"] += 1
    sel = [x for x in keep if isinstance(x[0], gram.G)][: (12 if tier == "quick" else 120)]
    gs = []
    for g, rg, inv, desc in sel:
        gs += [g, rg]
    if gs:
        variants = ("t",) if tier == "quick" else ("t", "a")
        ok, out, binary, units = cgcheck.build_corpus(rep, lal, gs, variants=variants)
        if not ok:
            # find out whether an unrenamed grammar alone compiles: if so the renaming broke the output
            ok0, out0, _, _ = cgcheck.build_corpus(rep, lal, gs[0::2], variants=variants)
            bad("renamed-grammar-does-not-compile" if ok0 else "generated-code-does-not-compile",
                {"what": "rustc rejects the parsers generated from renamed grammars although the originals compile" if ok0 else "rustc rejects a generated parser", "rustc": out[-3000:]})
        else:
            byg = {(u["gi"], u["variant"]): u for u in units}
            cases, meta = [], []
            for k, (g, rg, inv, desc) in enumerate(sel):
                for v in variants:
                    u1, u2 = byg.get((2 * k, v)), byg.get((2 * k + 1, v))
                    if not u1 or not u2:
                        continue
                    labs = [(nt, i) for nt in g.nts for i in range(len(g.rules[nt])) if "fallible" in g.flags[(nt, i)]]
                    fwd = {v_: k_ for k_, v_ in inv.items()}
                    for st in g.pubs:
                        if not g.reduced(st):
                            continue
                        for n, w in enumerate(lrcheck.gen_words(g, st, r, 10 if tier == "quick" else 24)):
                            items = lrengine.tok_items(g, {"tnames": ['"%s"' % t for t in g.terms]}, w, r)
                            orc1, orc2 = [], []
                            if labs and n % 2 == 0:
                                nt, i = r.choice(labs)
                                idn, code = r.choice([it[2] for it in items] + [0]), r.randint(100, 199)
                                orc1, orc2 = [("%s#%d" % (nt, i), idn, code)], [("%s#%d" % (fwd[nt], i), idn, code)]
                            cases.append((u1["name"], st, items, None, orc1)); cases.append((u2["name"], fwd[st], items, None, orc2))
                            meta.append((k, v, st, w))
            res = cgb.run(binary, cases)
            for j, (k, v, st, w) in enumerate(meta):
                g, rg, inv, desc = sel[k]
                a, b = norm(res[2 * j], {}), norm(res[2 * j + 1], inv)
                ncase += 1
                dist["words"] += 1
                if a != b:
                    bad("result-changes-under-renaming", {"what": "a parse result changes when the grammar's identifiers are renamed", "renaming": desc, "grammar_text": g.render(ascent=(v == "a")),
                                                          "renamed_grammar_text": rg.render(ascent=(v == "a")), "tokens": w, "original": a, "renamed": b})
    cov = {"obligations": nobl + ncase, "discharged": ndis + ncase - nbad,
           "checker_cmd": "make -C coq; coqc Props/C25.v; lalrpop on original and renamed grammars; cargo build harness/cgb; run both",
           "trusted_base": vlib.TRUSTED_COMMON + ["tools/c25.py renaming of rendered grammar texts", "rustc; harness/cgb"],
           "theorems": names, "evaluations": ncase, "distinct_nontrivial": dist["both_ok"] + dist["words"],
           "rule": "LR corpus, inline corpus, random grammars (recovery, fallible) x renamings of all nonterminals into internal-looking names (__0, __Symbol, __parse__S, __action0, SParser, ...; the second nonterminal gets <first>1) "
                   "and of all bindings (c0.., l, r) into __0, __sym0, __lookahead, __temp0, v, e ...; precedence layouts with a helper nonterminal renamed to a level name",
           "distribution": dist, "samples": [pairs[0][3]]}
    vlib.write_evidence(PROP, tier, "proof", cov, time.time() - t0, violations=len(rep.viol),
                        assumptions=["grammar parameters and type parameters are not renamed (the corpus has none)", "names generated without the prefix ({Start}Parser, Token import, level names) are outside the freshness theorem; they are exercised by the renaming pool"])
    return rep.finish()


def replay(path):
    print(json.dumps(json.load(open(path)), indent=1)[:4000])
    return run("quick")
